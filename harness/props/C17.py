"""C17 fixed-income accounting: notional by security kind, notional weights, coupon / holding-cost accrual and payment on the
next date, additive index, SetNotional-scaled Rebalance targets — on fixed-income engine histories (step correspondence with
the Lean model inside the C17 footprint) and on generated FixedIncomeStrategy backtests."""
import numpy as np
import pandas as pd

from .. import engine as E
from .. import gen_runs as R
from .. import monitors as M
from ..engine_run import Observer, run_engine_protocol, run_history_observed, model_compare, continuation_search
from .C01 import check_tree

RULE = ("fixed-income trees mixing Security / FixedIncomeSecurity / CouponPayingSecurity / HedgeSecurity / CouponPayingHedgeSecurity, "
        "irregular and zero coupons, asymmetric long/short holding costs (some missing), long and short trades, spreads and commissions; "
        "engine histories + FixedIncomeStrategy backtests with SetNotional schedules; clauses checked at observation points and on closed dates. "
        "distinct = (tree shape, op, outcome, integer, commission) / (program: kinds, schedule, notional schedule kind)")
ASSUMPTIONS = ["dates are closed by an update before the clock moves"]

FOOT_FIELDS = {"notl", "rNotl", "coupon", "holdingCost", "capital", "rCoupon", "rHolding", "price", "lastPrice", "lastNotl", "weight",
               "value", "position", "rPrice", "rCash", "netFlows", "stale", "now", "needupdate"}


def notional_check(bt, root, where):
    out = []
    c = bt.core
    for n in root.members:
        nv = n.notional_value
        if isinstance(n, c.SecurityBase):
            if n._price != n._price:
                continue
            if isinstance(n, (c.HedgeSecurity, c.CouponPayingHedgeSecurity)):
                exp, kind = 0.0, "hedge"
            elif isinstance(n, c.FixedIncomeSecurity):
                exp, kind = n.position, "par"
            else:
                exp, kind = n.value, "market"
            if n.now != n.parent.now:
                continue
            if abs(nv - exp) > M.rtol(nv, exp):
                out.append(("notional-kind:" + kind, "%s %s (%s): notional %r, expected %r" % (where, n.full_name, type(n).__name__, nv, exp)))
        else:
            exp = sum(abs(k.notional_value) for k in n.children.values())
            if abs(nv - exp) > M.rtol(nv, exp):
                out.append(("strategy-notional", "%s %s: notional %r != sum |child notional| %r" % (where, n.full_name, nv, exp)))
    return out


def carry_check(bt, root, n):
    """closed dates: coupon = position x coupon rate, holding cost = long/short cost on the absolute position"""
    out = []
    c = bt.core
    for s in root.members:
        if not isinstance(s, c.CouponPayingSecurity):
            continue
        pos = np.asarray(s._positions.values, dtype=float)[:n]
        cp = np.asarray(s._coupon_income.values, dtype=float)[:n]
        hc = np.asarray(s._holding_costs.values, dtype=float)[:n]
        rate = np.asarray(s._coupons.values, dtype=float)[:n]
        cl = np.asarray(s._cost_long.values, dtype=float)[:n] if s._cost_long is not None else None
        cs = np.asarray(s._cost_short.values, dtype=float)[:n] if s._cost_short is not None else None
        for i in range(n):
            q = pos[i]
            r = rate[i]
            ecp = 0.0 if (r != r and abs(q) < 1e-16) else q * r
            if ecp == ecp and abs(cp[i] - ecp) > M.rtol(cp[i], ecp):
                out.append(("coupon-accrual", "%s date#%d: coupon row %r != position %r x coupon %r" % (s.full_name, i, cp[i], q, r)))
                break
            if q > 0 and cl is not None:
                eh = q * cl[i]
            elif q < 0 and cs is not None:
                eh = -q * cs[i]
            else:
                eh = 0.0
            if eh == eh and abs(hc[i] - eh) > M.rtol(hc[i], eh):
                out.append(("holding-cost", "%s date#%d: holding cost row %r != %r (position %r, long %r, short %r)"
                            % (s.full_name, i, hc[i], eh, q, None if cl is None else cl[i], None if cs is None else cs[i])))
                break
    return out


class Monitor(Observer):
    def __init__(self, ctx):
        self.ctx = ctx

    def observe(self, bt, spec, target, dates, step, i):
        if step["pending"]:
            return
        self.ctx.count("monitor-observations")
        try:
            v = notional_check(bt, target, "after op %d" % (i - 1))
            v += [x for x in check_tree(bt, target, "after op %d" % (i - 1)) if x[0] in ("child-weight", "strat-notional")]
        except Exception as e:  # noqa
            self.ctx.count("monitor-read-raised:" + E.classify_exc(e))
            return
        for key, msg in v:
            self.ctx.violation("C17/" + key, msg, {"spec": spec, "mode": "history"})

    def finish(self, bt, spec, root, dates, steps):
        ok_steps = [s for s in steps if "err" not in s]
        if not ok_steps:
            return
        last = ok_steps[-1]["post"]
        now = last["root"]["now"]
        if now is None:
            return
        fresh = (not last["stale"]) and (not ok_steps[-1]["pending"]) and ("err" not in steps[-1])
        n = now + 1 if fresh else now
        user = M.user_log_from_ops(spec, steps)
        v = carry_check(bt, root, n) + M.ledger_check(bt, root, n, user) + M.index_check(bt, root, n, bt.core.PAR)
        self.ctx.count("closed-dates-checked", n)
        for key, msg in v:
            self.ctx.violation("C17/" + key, msg, {"spec": spec, "mode": "history"})


# ---------------------------------------------------------------- whole fixed-income backtests
class _Probe:
    """records, right after Rebalance, each child's notional and the notional set for the date"""

    def __init__(self):
        self.log = []

    def __call__(self, target):
        nv = target.temp.get("notional_value")
        w = target.temp.get("weights")
        self.log.append((str(target.now), None if nv is None else float(nv), dict(w) if w else None,
                         {k: (float(c.notional_value), float(c.position), type(c).__name__) for k, c in target.children.items()}))
        return True


def gen_program(rng, winddown=False):
    T = rng.randint(6, 14)
    dates, kind = R.gen_index(rng, T, rng.choice(["D", "B"]))
    n = rng.randint(2, 4)
    names = R.TICKERS[:n]
    grid = rng.choice(["int", "dyadic", "float"])
    kinds = [rng.choice([1, 2, 2, 2, 3, 4, 0]) for _ in names]
    if not any(k in (1, 2) for k in kinds):
        kinds[0] = 2   # at least one par-based security: a strategy of hedges only has no notional to measure returns on
    prices = R.gen_paths(rng, names, T, grid, late=0.0)
    for nm, k in zip(names, kinds):
        if k in (1, 2, 4):
            base = 100.0
            prices[nm] = [base + (rng.randint(-8, 8) / 4.0 if grid != "float" else rng.uniform(-2, 2)) for _ in range(T)]
    ws = {}
    for nm in names:
        ws[nm] = rng.choice([0.25, 0.5, -0.25, 0.125, 1.0, -0.5])
    spec = {"mode": "program", "dates": dates, "names": names, "kinds": kinds, "grid": grid, "prices": prices,
            "mult": [rng.choice([1.0, 1.0, 10.0]) for _ in names],
            "coupons": {nm: [rng.choice([0.0, 0.0, 0.25, 0.5, 1.0]) if grid != "float" else rng.choice([0.0, rng.uniform(0, 1)]) for _ in range(T)] for nm in names},
            "cost_long": {nm: [rng.choice([0.0, 0.0625, 0.125])] * T for nm in names if rng.random() < 0.7} if rng.random() < 0.8 else None,
            "cost_short": {nm: [rng.choice([0.0, 0.125, 0.25])] * T for nm in names if rng.random() < 0.6} if rng.random() < 0.8 else None,
            "notional": [float(rng.choice([1000, 1000, 2000, 50000, 50000, 100000])) for _ in range(T)],
            "weights": ws, "sched": rng.choice(["RunDaily", "RunWeekly", "RunOnce", "RunEveryNPeriods"]),
            "integer": rng.random() < 0.5, "comm": rng.choice([[0, 0, 0], [0, 0, 0], [3, 0, 0.001], [1, 1.0, 0]]),
            "bidoffer": rng.random() < 0.3}
    if winddown and rng.random() < 0.3:
        # a wind-down (a return on a zero notional base is refused by the engine - C10's zero-base class - so only where asked for): the scheduled notional is exactly 0 for a stretch (the book is closed), sometimes built up again afterwards
        i = rng.randint(1, T - 1)
        j = rng.randint(i, T - 1)
        for k in range(i, j + 1):
            spec["notional"][k] = 0.0
    return spec


def build_program(bt, spec):
    s, data, add, kw = program_parts(bt, spec)
    return bt.Backtest(s, data, integer_positions=spec["integer"], additional_data=add, progress_bar=False, **kw)


def program_parts(bt, spec):
    """(strategy definition, data, additional data, Backtest keywords) of a generated fixed-income program"""
    c = bt.core
    a = bt.algos
    idx = pd.DatetimeIndex(spec["dates"])
    kids = []
    for nm, k, m in zip(spec["names"], spec["kinds"], spec["mult"]):
        cls = [c.Security, c.FixedIncomeSecurity, c.CouponPayingSecurity, c.HedgeSecurity, c.CouponPayingHedgeSecurity][k]
        if nm in (spec.get("lazy") or []):
            kids.append(cls(nm, multiplier=m, lazy_add=True))     # joins the tree when it is first traded, not at setup
        else:
            kids.append(cls(nm, multiplier=m))
    sched = {"RunDaily": a.RunDaily(), "RunWeekly": a.RunWeekly(), "RunOnce": a.RunOnce(), "RunEveryNPeriods": a.RunEveryNPeriods(2)}[spec["sched"]]
    probe = _Probe()
    s = bt.FixedIncomeStrategy("fi", algos=[sched, a.WeighSpecified(**spec["weights"]), a.SetNotional("notional"), a.Rebalance(), probe], children=kids)
    data = R.frame(spec["prices"], spec["dates"])
    add = {"coupons": R.frame(spec["coupons"], spec["dates"]), "notional": pd.Series(spec["notional"], index=idx)}
    if spec["cost_long"]:
        add["cost_long"] = R.frame(spec["cost_long"], spec["dates"])
    if spec["cost_short"]:
        add["cost_short"] = R.frame(spec["cost_short"], spec["dates"])
    if spec["bidoffer"]:
        add["bidoffer"] = R.frame({nm: [0.25] * len(idx) for nm in spec["names"]}, spec["dates"])
    kw = {}
    if spec["comm"][0]:
        kw["commissions"] = E.make_comm(*spec["comm"])
    return s, data, add, kw


def run_program(ctx, bt, spec):
    try:
        b = build_program(bt, spec)
        b.run()
    except Exception as e:  # noqa
        ctx.count("program-raised:" + E.classify_exc(e))
        return
    ctx.count("program-completed")
    root = b.strategy
    n = len(b.dates)
    ctx.classes.add((tuple(spec["kinds"]), spec["sched"], spec["integer"], spec["comm"][0], spec["bidoffer"], len(set(spec["notional"])) > 1))
    rd = spec
    v = carry_check(bt, root, n) + M.ledger_check(bt, root, n, None) + M.index_check(bt, root, n, bt.core.PAR)
    try:
        v += notional_check(bt, root, "end of run")
    except Exception:
        pass
    for key, msg in v:
        ctx.violation("C17/" + key, msg, rd)
    probe = [x for x in root.stack.algos if isinstance(x, _Probe)][0]
    for date, nv, w, kids in probe.log:
        if nv is None or not w:
            continue
        for nm, (knotl, pos, tname) in kids.items():
            if nm not in w or tname not in ("FixedIncomeSecurity", "CouponPayingSecurity"):
                continue
            want = w[nm] * nv
            unit = 1.0 if spec["integer"] else 0.0
            if abs(knotl - want) > unit + 1e-9 * max(1.0, abs(want)):
                ctx.violation("C17/setnotional-target", "%s on %s: notional %r after Rebalance, target weight %r x notional %r = %r"
                              % (nm, date, knotl, w[nm], nv, want), rd)
                return


# ---------------------------------------------------------------- RenormalizedFixedIncomeResult (the "renormalised result" anchor)
def renorm_protocol(ctx, bt, n, corr="report:renorm[C17]", fixed=None):
    """Finished fixed-income backtests: `RenormalizedFixedIncomeResult(v, backtest)` (the real constructor; its price frame) vs
    `Bt.Renorm.renormPrices` on the strategy's recorded value / flows rows, and the clauses of the statement judged directly:
    first row PAR, each later row moves by PAR x (change in value net of flows) / v, and - when the strategy's recorded notional
    was v on every earlier date - the series is the strategy's own index."""
    from .. import leanrun
    cases, lines = [], []
    todo = [None] * n if fixed is None else list(fixed)
    for item in todo:
        spec = gen_program(ctx.rng, winddown=False) if item is None else {k: v for k, v in item.items() if not k.startswith("renorm_")}
        ctx.evaluations += 1
        if item is None and ctx.rng.random() < 0.5:
            # a book held at one notional throughout: par-based weights whose absolute values sum to 1, constant schedule
            par_based = [nm for nm, k in zip(spec["names"], spec["kinds"]) if k in (1, 2)]
            share = {1: [1.0], 2: [0.5, -0.5], 3: [0.5, 0.25, 0.25], 4: [0.25, -0.25, 0.25, 0.25]}[len(par_based)]
            for nm, w in zip(par_based, share):
                spec["weights"][nm] = w
            nv = float(ctx.rng.choice([1000, 2000, 50000]))
            spec["notional"] = [nv] * len(spec["dates"])
            spec["sched"] = ctx.rng.choice(["RunDaily", "RunOnce"])
            ctx.count("renorm:constant-notional-programs")
        try:
            b = build_program(bt, spec)
            b.run()
        except Exception as e:  # noqa
            ctx.count("renorm:program-raised:" + E.classify_exc(e))
            continue
        s = b.strategy
        T = len(b.dates)
        values = [float(x) for x in np.asarray(s.values.values, dtype=float)]
        flows = [float(x) for x in np.asarray(s.flows.values, dtype=float)]
        notl = [float(x) for x in np.asarray(s.notional_values.values, dtype=float)]
        index = [float(x) for x in np.asarray(s.prices.values, dtype=float)]
        held = notl[1] if T > 1 else 0.0
        vs = [held if abs(held) > 0 else 1000.0, float(ctx.rng.choice([1.0, 1000.0, 12345.678, 1e6]))]
        if ctx.rng.random() < 0.1:
            vs.append(0.0)
        if item is not None:
            vs = [item["renorm_v"]] if ("renorm_v" in item and "renorm_dict" not in item) else []
        # ---- the normalising value as a Series on the backtest's dates
        series = []
        tol = float(bt.core.TOL)
        engine_bases = [float("nan")] + [(notl[t - 1] if abs(notl[t - 1]) >= tol else notl[t]) for t in range(1, T)]
        if item is None:
            series.append(("engine-bases", engine_bases))
            rnd = [float(ctx.rng.choice([1000.0, 2000.0, 12345.678, 0.0, float("nan")])) if ctx.rng.random() < 0.3 else 1000.0 for _ in range(T)]
            series.append(("random", rnd))
        elif "renorm_series" in item:
            series.append((item.get("renorm_series_kind", "replayed"), [float("nan") if x is None else x for x in item["renorm_series"]]))
        for kind, ser in series:
            try:
                res = bt.backtest.RenormalizedFixedIncomeResult(pd.Series(ser, index=b.dates), b)
                real = [float(x) for x in np.asarray(res.prices[b.name].reindex(b.dates).values, dtype=float)]
                ctx.count("renorm:series:via-constructor")
            except Exception as e:  # noqa
                ctx.count("renorm:series:constructor-raised:" + type(e).__name__)
                try:
                    real = [float(x) for x in np.asarray(bt.backtest.RenormalizedFixedIncomeResult._price(None, s, pd.Series(ser, index=b.dates)).values, dtype=float)]
                except Exception as e2:  # noqa
                    ctx.count("renorm:series:_price-raised:" + type(e2).__name__)
                    continue
            rd = dict(spec, renorm_series=[None if x != x else x for x in ser], renorm_series_kind=kind)
            par = float(bt.core.PAR)
            ctx.count("renorm:series:" + kind)
            if kind == "engine-bases" and len(real) == T and all(x == x for x in index):
                # renormalising by the very bases the engine measured each date's return on gives back the strategy's own index
                # (rows whose base is exactly 0 show NaN - 0/0 - and are skipped by the running total, like the engine's `ret = 0`)
                judged = 0
                for t in range(T):
                    if real[t] != real[t] or abs(real[t]) == float("inf"):
                        continue
                    judged += 1
                    if not abs(real[t] - index[t]) <= 1e-9 * max(1.0, abs(index[t])):
                        ctx.violation("C17/renorm-by-engine-bases-vs-index", "date#%d: renormalised by the bases the index was measured on gives %r, the strategy's index is %r"
                                      % (t, real[t], index[t]), rd)
                        break
                ctx.count("renorm:series:rows-judged-against-index", judged)
            cases.append((rd, real))
            lines.append("report renorms %s %s %s %s" % (E.tF(par), E.tL(ser, lambda x: "N" if x != x else E.tF(x)), E.tL(values, E.tF), E.tL(flows, E.tF)))
        # ---- a dict of normalising values, by BACKTEST name: two backtests of the same definition, one under its default name (the
        # strategy's), one under a name of its own, each with its own value
        if item is None and ctx.rng.random() < 0.5 or (item is not None and "renorm_dict" in item):
            try:
                s2_, data2_, add2_, kw2_ = program_parts(bt, spec)
                b2 = bt.Backtest(s2_, data2_, name="fi_stress", integer_positions=spec["integer"], additional_data=add2_, progress_bar=False, **kw2_)
                b2.run()
                va, vb = (item["renorm_dict"] if item is not None else
                          [float(ctx.rng.choice([1000.0, 1e6, 12345.678])), float(ctx.rng.choice([2000.0, 2.5e5, 777.0]))])
                res = bt.backtest.RenormalizedFixedIncomeResult({b.name: va, "fi_stress": vb}, b, b2)
                ctx.count("renorm:dict-by-backtest-name")
                par = float(bt.core.PAR)
                for bb, vv in ((b, va), (b2, vb)):
                    st = bb.strategy
                    vals = [float(x) for x in np.asarray(st.values.values, dtype=float)]
                    fls = [float(x) for x in np.asarray(st.flows.values, dtype=float)]
                    real = [float(x) for x in np.asarray(res.prices[bb.name].reindex(bb.dates).values, dtype=float)]
                    rd = dict(spec, renorm_dict=[va, vb], renorm_col=bb.name)
                    for t in range(1, len(real)):
                        step = par * ((vals[t] - vals[t - 1]) - fls[t]) / vv
                        if not abs((real[t] - real[t - 1]) - step) <= 1e-9 * max(1.0, abs(real[t]), abs(real[t - 1]), abs(step)):
                            ctx.violation("C17/renorm-dict-value", "backtest %r renormalised with the dict {%r: %r, 'fi_stress': %r}: date#%d moves by %r, "
                                          "its own value %r gives %r" % (bb.name, b.name, va, vb, t, real[t] - real[t - 1], vv, step), rd)
                            break
                    cases.append((dict(rd, renorm_v=vv), real))
                    lines.append("report renorm %s %s %s %s" % (E.tF(par), E.tF(vv), E.tL(vals, E.tF), E.tL(fls, E.tF)))
            except Exception as e:  # noqa
                ctx.count("renorm:dict-case-raised:" + type(e).__name__)
        for v in vs:
            via = "constructor"
            try:
                res = bt.backtest.RenormalizedFixedIncomeResult(v, b)
                real = [float(x) for x in np.asarray(res.prices[b.name].reindex(b.dates).values, dtype=float)]
            except Exception as e:  # noqa  (ffn's statistics can refuse a degenerate series; the price rule itself is then called directly)
                ctx.count("renorm:constructor-raised:" + type(e).__name__)
                via = "_price"
                try:
                    real = [float(x) for x in np.asarray(bt.backtest.RenormalizedFixedIncomeResult._price(None, s, v).values, dtype=float)]
                except Exception as e2:  # noqa
                    ctx.count("renorm:_price-raised:" + type(e2).__name__)
                    continue
            ctx.count("renorm:via-" + via)
            rd = dict(spec, renorm_v=v)
            par = float(bt.core.PAR)
            # ---- the statement, judged on the real output
            if len(real) != T:
                ctx.violation("C17/renorm-length", "renormalised series has %d rows for %d dates" % (len(real), T), rd)
                continue
            if v != 0.0:
                if real[0] != par:
                    ctx.violation("C17/renorm-first-row", "renormalised series starts at %r, not PAR %r" % (real[0], par), rd)
                bad = False
                for t in range(1, T):
                    step = par * ((values[t] - values[t - 1]) - flows[t]) / v
                    if not abs((real[t] - real[t - 1]) - step) <= 1e-9 * max(1.0, abs(real[t]), abs(real[t - 1]), abs(step)):
                        ctx.violation("C17/renorm-step", "date#%d: renormalised price moves by %r, expected PAR x (%r - %r - %r) / %r = %r"
                                      % (t, real[t] - real[t - 1], values[t], values[t - 1], flows[t], v, step), rd)
                        bad = True
                        break
                # the base of date t's return is the previous date's notional, or the date's own when that was negligible (opening the book)
                bases = [(notl[t - 1] if abs(notl[t - 1]) >= 1e-16 else notl[t]) for t in range(1, T)]
                moved = [t for t in range(1, T) if abs(values[t] - values[t - 1] - flows[t]) > 0]
                if not bad and moved and all(abs(bases[t - 1] - v) <= 1e-9 * abs(v) for t in moved) and all(x == x for x in index):
                    ctx.count("renorm:base-equals-v-throughout")
                    for t in range(T):
                        if not abs(real[t] - index[t]) <= 1e-9 * max(1.0, abs(index[t])):
                            ctx.violation("C17/renorm-vs-index", "date#%d: renormalised by the notional held throughout (%r) gives %r, the strategy's index is %r"
                                          % (t, v, real[t], index[t]), rd)
                            break
            cases.append((rd, real))
            lines.append("report renorm %s %s %s %s" % (E.tF(par), E.tF(v), E.tL(values, E.tF), E.tL(flows, E.tF)))
    outs = leanrun.run_lines(lines)
    nd = 0
    bit = tot = 0
    for (rd, real), line in zip(cases, outs):
        if not line.startswith("ok "):
            ctx.disagreement(corr, "model answered %r" % line[:120], rd)
            nd += 1
            continue
        t = E._Toks(line[3:])
        model = t.lst(lambda: t.opt(t.flt))
        ok = len(model) == len(real)
        if ok:
            for i, (r, m) in enumerate(zip(real, model)):
                tot += 1
                mm = float("nan") if m is None else m
                if (r != r) and (mm != mm):
                    bit += 1
                    continue
                if r == mm:
                    bit += 1
                    continue
                if not abs(r - mm) <= 1e-9 * max(1.0, abs(r), abs(mm)):
                    ok = False
                    ctx.disagreement(corr, "row %d: real %r, model %r (v = %r)" % (i, r, mm, rd.get("renorm_v", rd.get("renorm_series_kind"))), rd)
                    break
        else:
            ctx.disagreement(corr, "real series has %d rows, model %d" % (len(real), len(model)), rd)
        if not ok:
            nd += 1
    ctx.count("renorm:floats-compared", tot)
    ctx.count("renorm:floats-bit-identical", bit)
    ctx.protocols.append((corr, len(cases), nd))


def run(ctx, bt):
    from .. import whole_run as _W
    # complete fixed-income backtests executed end to end by the model (ProgFI node functions: gate, WeighSpecified, SetNotional, Rebalance)
    _W.fi_whole_run_protocol(ctx, bt, ctx.scale(25, 500), "whole-run-fi[C17]", footprint_fields=FOOT_FIELDS)
    from .. import gen_engine as _G
    run_engine_protocol(ctx, bt, ctx.scale(25, 400), [Monitor(ctx)], FOOT_FIELDS, None, spec_kwargs={"fi_tree": True},
                        spec_mutator=_G.carry_open_close, corr_name="step[C17]:carry-open-close")
    run_engine_protocol(ctx, bt, ctx.scale(90, 1000), [Monitor(ctx)], FOOT_FIELDS, None, spec_kwargs={"fi_tree": True}, corr_name="step[C17]")
    for _ in range(ctx.scale(80, 1500)):
        spec = gen_program(ctx.rng, winddown=True)
        if ctx.rng.random() < 0.3:
            # some securities declared with lazy_add=True (monitor-judged runs only: the model's trees are fixed at setup)
            spec["lazy"] = [nm for nm in spec["names"] if ctx.rng.random() < 0.6]
            ctx.count("programs-with-lazily-added-securities")
        ctx.evaluations += 1
        run_program(ctx, bt, spec)
    _run_steps(ctx, bt)
    renorm_protocol(ctx, bt, ctx.scale(30, 400))


def _run_steps(ctx, bt):
    from ..runs_run import run_steps_protocol
    run_steps_protocol(ctx, bt, ctx.scale(15, 300), FOOT_FIELDS, "run-steps[C17]:fixed-income-programs", make_spec=gen_program, build=build_program)


def search(ctx, bt):
    continuation_search(ctx, bt, lambda: [Monitor(ctx)])
    if ctx.violations:
        return
    run_engine_protocol(ctx, bt, ctx.scale(400, 2500), [Monitor(ctx)], FOOT_FIELDS, None, spec_kwargs={"fi_tree": True}, corr_name="step[C17]:search")
    for _ in range(ctx.scale(400, 3000)):
        spec = gen_program(ctx.rng, winddown=True)
        ctx.evaluations += 1
        run_program(ctx, bt, spec)


def replay(bt, data, ctx):
    case = data["case"]
    if "renorm_v" in case or "renorm_series" in case or "renorm_dict" in case:
        return renorm_protocol(ctx, bt, 0, fixed=[case])
    if case.get("mode") == "program":
        return run_program(ctx, bt, case)
    spec = case["spec"]
    steps, root, dates = run_history_observed(bt, spec, ctx.rng, len(spec["ops"]), [Monitor(ctx)], ctx)
    model_compare(ctx, bt, [(spec, i, st) for i, st in enumerate(steps)], FOOT_FIELDS, None, "step[C17]")
