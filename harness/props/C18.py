"""C18 reports agree with the node histories they summarise.

Protocol `report`: generated whole backtests are run on the real code; every member's private series are read after
the run and sent to the Lean model (`Bt.Report`), whose reports are compared cell by cell with the real ones.
Protocol `replay`: the run's transaction list is replayed by a second real backtest (`ReplayTransactions`), whose
histories are compared with the Lean model of the algo.
Monitor: every clause of the property text recomputed with numpy from the node histories and an external trade log
(written from the text, shares no code with the model or the comparison)."""
import glob
import json
import math
import os
import re

import random
import numpy as np
import pandas as pd

from .. import engine as E
from .. import gen_runs as R
from .. import leanrun
from . import C17 as FI

RULE = ("whole generated backtests: flat and nested trees (1-3 sub-strategies), the same ticker held by two or more sub-strategies (and by the "
        "root next to them), FixedIncomeStrategy roots over the five security classes with coupons and multipliers, integer/fractional "
        "positions, the commission family, constant and random bid/offer spreads, securities with multipliers, runs that never trade (with "
        "and without declared children), two rebalancing stages on one date (partial and full same-date round trips), capital flows; "
        "for each finished run every report is compared with the Lean model of the same node histories (bit patterns), the property text "
        "is recomputed from the histories and an external trade log, and the transaction list is replayed by a second backtest. "
        "distinct = (variant, tree shape, integer, commission kind, spread, shared ticker, round trip, traded, bankrupt)")
ASSUMPTIONS = [
    "node histories are read from the private series after the report accessors have run (an accessor brings lagging securities to the current date)",
    "names are numbered in sorted string order, so the model's sort on numbers is pandas' sort_index on names",
    "row sums of frames with fewer than 8 columns are plain left-to-right sums (numpy's pairwise summation starts at 8)",
    "the sum-to-one clause is judged for market-value roots (under a fixed-income root weights are notional based and do not add up with cash)",
    "the value half of the replay clause is judged on runs without external capital flows (a transaction list does not carry flows); "
    "the replaying strategy declares its children as Security objects (ReplayTransactions looks children up with target[name], which does not create lazy children)",
    "positions of a replay that goes bankrupt where the original did not are not judged (its values already differ and are reported)",
    "the structural key of a replay-value violation is the cause read off two external trade logs (original and replaying run): per (ticker, date) the outlay and the "
    "commission taken are compared; a commission difference is split at `commission(net quantity, market price)` into an aggregation part (round-trip / split-trades) "
    "and a price part (spread-and-price-commission); any difference that is none of these, and any value difference the cost differences do not account for, is `plain`",
    "execution price of a (date, ticker) row = cash booked by the logged trades of that date and ticker / (net quantity x multiplier)",
]

HERE = os.path.dirname(os.path.dirname(os.path.dirname(os.path.abspath(__file__))))
TOL = 1e-16


# ------------------------------------------------------------------------------------------------ generation
def _strip_flows(spec):
    for t in [spec["tree"]] + spec["tree"]["kids"]:
        t["stack"] = [d for d in t["stack"] if d[0] not in ("CapitalFlow", "QuietOps")]


def _fresh_prices(rng, spec):
    spec["prices"] = R.gen_paths(rng, spec["tickers"], len(spec["dates"]), spec["grid"], late=0.0)
    spec.pop("late_listings", None)


def _second_stage(rng, names, full):
    """a second weigh + rebalance on the same date; `full`: only one name stays targeted, every other child is closed again"""
    if full:
        ws = {rng.choice(names): rng.choice([0.25, 0.5, 0.125])}
    else:
        ws = {}
        tot = 0.0
        for n in names:
            if rng.random() < 0.7:
                w = rng.choice([0.125, 0.25, 0.0625, 0.375, -0.125])
                if tot + abs(w) <= 1.0:
                    ws[n] = w
                    tot += abs(w)
        if not ws:
            ws[names[0]] = 0.25
    return [["WeighSpecified", ws], ["Rebalance"]]


VARIANTS = ["plain", "plain", "nested", "shared", "shared", "double", "roundtrip", "notrade", "mult", "fi", "fi", "flows", "spread"]


def gen_churn_case(rng):
    """a cost-free book that turns over every day (names enter and are closed out completely on consecutive dates): the run's
    transaction list then holds, for a coarser timeline, windows with several fills of one name - some netting to exactly zero"""
    spec = R.gen_run_spec(rng, nested=False, T=rng.randint(8, 16))
    _strip_flows(spec)
    tickers = spec["tickers"]
    spec["comm"] = [0, 0, 0]
    spec.pop("bidoffer", None)
    spec["tree"]["kids"] = []
    spec["tree"]["tickers"] = list(tickers)
    spec["tree"]["stack"] = [["RunDaily", True, False, False], ["SelectAll"], ["SelectRandomly", rng.randint(1, max(1, len(tickers) - 1)), rng.randint(0, 10 ** 6)],
                             ["WeighEqually"], ["Rebalance"]]
    _fresh_prices(rng, spec)
    return {"kind": "gen", "variant": "churn", "spec": spec, "read_order": None, "coarse_seed": rng.randint(0, 10 ** 6)}


def gen_case(rng, variant=None):
    v = variant or rng.choice(VARIANTS)
    if v == "fi":
        return {"kind": "fi", "variant": v, "spec": FI.gen_program(rng)}
    nested = True if v in ("nested",) else (False if v in ("mult", "double", "roundtrip", "spread") else None)
    spec = R.gen_run_spec(rng, nested=nested, T=rng.randint(5, 16))
    tickers = spec["tickers"]
    dates = spec["dates"]
    if v != "flows":
        _strip_flows(spec)
    if v in ("spread", "mult") or (v in ("shared", "double", "roundtrip") and rng.random() < 0.6):
        T = len(dates)
        if rng.random() < 0.5:
            spec["bidoffer"] = {t: [rng.choice([0.125, 0.25, 0.5])] * T for t in tickers}
        else:
            spec["bidoffer"] = {t: [rng.choice([0.0, 0.125, 0.25, 0.5]) if spec["grid"] != "float" else rng.uniform(0, 0.3) for _ in range(T)] for t in tickers}
    if v == "shared":
        common = sorted(rng.sample(tickers, rng.randint(1, len(tickers))))
        kids = []
        for i in range(rng.choice([2, 2, 3])):
            sub_t = sorted(set(common) | set(rng.sample(tickers, rng.randint(0, len(tickers)))))
            kids.append({"name": "sub%d" % i, "tickers": sub_t, "stack": R.gen_stack(rng, sub_t, dates, allow_flow=False, calendar_only=True)})
        own = sorted(rng.sample(common, rng.randint(0, len(common)))) if rng.random() < 0.4 else []
        names = [k["name"] for k in kids] + own
        spec["tree"] = {"name": "top", "tickers": own, "kids": kids, "stack": R.gen_stack(rng, names, dates, allow_flow=False)}
        _fresh_prices(rng, spec)
    if v in ("double", "roundtrip"):
        spec["tree"]["tickers"] = list(tickers)
        spec["tree"]["stack"] = R.gen_stack(rng, tickers, dates, allow_flow=False)
        if spec["tree"]["stack"][-1][0] != "Rebalance":
            spec["tree"]["stack"][-1] = ["Rebalance"]
        spec["tree"]["stack"] += _second_stage(rng, tickers, v == "roundtrip")
        _fresh_prices(rng, spec)
    if v == "notrade":
        for t in [spec["tree"]] + spec["tree"]["kids"]:
            t["stack"] = [["RunAfterDate", dates[-1]]] + [d for d in t["stack"] if not d[0].startswith("Run") or d[0] == "Rebalance"]
        if not spec["tree"]["kids"]:
            spec["tree"]["tickers"] = list(tickers) if rng.random() < 0.5 else None
    if v == "mult":
        spec["tree"]["tickers"] = list(tickers)
        spec["tree"]["stack"] = R.gen_stack(rng, tickers, dates, allow_flow=False)
        spec["mult"] = {t: rng.choice([2.0, 10.0, 0.5, 100.0]) for t in tickers if rng.random() < 0.7} or {tickers[0]: 10.0}
        _fresh_prices(rng, spec)
    if rng.random() < 0.35:
        # somebody looks at the reports while the run is going on (before the scheduler: on every bar, the last one included)
        def peek(tr):
            st = tr.get("stack")
            if st is not None:
                st.insert(0 if rng.random() < 0.5 else rng.randint(0, len(st)), ["ReadReports", rng.randint(0, 10 ** 6)])
            for kd in tr.get("kids") or []:
                if isinstance(kd, dict):
                    peek(kd)
        peek(spec["tree"])
    return {"kind": "gen", "variant": v, "spec": spec, "read_order": rng.randint(0, 10 ** 6) if rng.random() < 0.7 else None,
            "coarse_seed": rng.randint(0, 10 ** 6)}


# ------------------------------------------------------------------------------------------------ real run
def fi_inputs(spec):
    """data and additional data of a C17 fixed-income program (what FI.build_program hands to Backtest)"""
    idx = pd.DatetimeIndex(spec["dates"])
    data = R.frame(spec["prices"], spec["dates"])
    add = {"coupons": R.frame(spec["coupons"], spec["dates"]), "notional": pd.Series(spec["notional"], index=idx)}
    if spec["cost_long"]:
        add["cost_long"] = R.frame(spec["cost_long"], spec["dates"])
    if spec["cost_short"]:
        add["cost_short"] = R.frame(spec["cost_short"], spec["dates"])
    if spec["bidoffer"]:
        add["bidoffer"] = R.frame({nm: [0.25] * len(idx) for nm in spec["names"]}, spec["dates"])
    return data, add


def execute(bt, case):
    """runs the case on the real code; returns dict(b, data, add, log) or dict(exc=...)"""
    spec = case["spec"]
    try:
        with R.trade_log(bt) as log:
            if case["kind"] == "fi":
                b = FI.build_program(bt, spec)
                data, add = fi_inputs(spec)
            else:
                b, data, add = R.build_backtest(bt, spec)
            b.run()
    except Exception as e:  # noqa
        return {"exc": E.classify_exc(e)}
    top = id(b.strategy)
    return {"b": b, "data": data, "add": add, "log": [t for t in log if t["paper"] == top]}


def real_reports(bt, b, order=None):
    """every report through the public API; a report that raises is recorded under 'raised'.  `order`: the reports are read in a
    shuffled order (a report must not depend on which other report was read before it - some getters refresh idle nodes)"""
    out = {"raised": {}}
    res = None
    first = [("weights", lambda: b.weights), ("security_weights", lambda: b.security_weights), ("positions", lambda: b.positions),
             ("outlays", lambda: b.strategy.outlays), ("herfindahl_index", lambda: b.herfindahl_index), ("turnover", lambda: b.turnover),
             ("strategy_prices", lambda: b.strategy.prices), ("stats_prices", lambda: b.stats.prices)]
    if order is not None:
        import random as _r
        _r.Random(order).shuffle(first)

    def call(name, f):
        try:
            out[name] = f()
        except Exception as e:  # noqa
            out["raised"][name] = "%s: %s" % (type(e).__name__, str(e)[:120])

    for nm_, f_ in first:
        call(nm_, f_)
    call("Result", lambda: bt.backtest.Result(b))
    res = out.get("Result")
    if res is not None:
        call("transactions", lambda: res.get_transactions())
        call("result_prices", lambda: res.prices[b.name])
        call("get_weights", lambda: res.get_weights())
        call("get_security_weights", lambda: res.get_security_weights())
    else:
        call("transactions", lambda: b.strategy.get_transactions())
    return out


def histories(bt, b):
    """the node histories as plain data: every member in `members` order with its private series up to now"""
    root = b.strategy
    c = bt.core
    T = int(root.data.index.get_loc(root.now)) + 1
    members = list(root.members)
    nodes = []
    for n in members:
        sec = isinstance(n, c.SecurityBase)

        def col(s, n=n):
            return [float(x) for x in np.asarray(s.values[:T], dtype=float)]
        zero = [0.0] * T
        d = {"full": n.full_name, "short": n.name, "sec": sec, "cls": type(n).__name__, "mult": float(getattr(n, "multiplier", 1.0)),
             "value": col(n._values), "notl": col(n._notl_values), "price": col(n._prices),
             "pos": col(n._positions) if sec else zero, "outlay": col(n._outlays) if sec else zero,
             "bo_paid": col(n._bidoffers_paid) if (sec and n._bidoffer_set) else zero,
             "cash": col(n._cash) if not sec else zero}
        nodes.append(d)
    return {"fi": bool(root.fixed_income), "bo_set": bool(root._bidoffer_set), "T": T, "nodes": nodes,
            "dates": [pd.Timestamp(x) for x in root.data.index[:T]]}


def finite_histories(h):
    for n in h["nodes"]:
        for k in ("value", "notl", "pos", "outlay", "bo_paid", "cash"):
            if not all(math.isfinite(x) for x in n[k]):
                return False
    return True


# ------------------------------------------------------------------------------------------------ model side
def name_ids(h, extra=()):
    names = sorted({n["full"] for n in h["nodes"]} | {n["short"] for n in h["nodes"]} | set(extra))
    return {s: i for i, s in enumerate(names)}, names


def tOF(x):
    return "N" if (x is None or x != x) else E.tF(x)


def hist_request(h, nid):
    toks = ["report hist", E.tB(h["fi"]), E.tB(h["bo_set"]), str(len(h["nodes"]))]
    for n in h["nodes"]:
        toks += [str(nid[n["full"]]), str(nid[n["short"]]), E.tB(n["sec"]), E.tF(n["mult"])]
    toks.append(str(h["T"]))
    for t in range(h["T"]):
        toks.append(str(len(h["nodes"])))
        for n in h["nodes"]:
            toks += [E.tF(n["value"][t]), E.tF(n["notl"][t]), E.tF(n["pos"][t]), E.tF(n["outlay"][t]), E.tF(n["bo_paid"][t]),
                     E.tF(n["cash"][t]), tOF(n["price"][t])]
    return " ".join(toks)


def parse_hist_answer(line):
    if not line.startswith("ok "):
        return None
    t = E._Toks(line[3:])

    def ko():
        return (t.nat(), t.opt(t.flt))

    def kf():
        return (t.nat(), t.flt())
    days = []
    for _ in range(t.nat()):
        days.append({"weights": t.lst(ko), "sec_weights": t.lst(ko), "positions": t.lst(kf), "outlays": t.lst(kf),
                     "herfindahl": t.flt(), "turnover": t.opt(t.flt), "price": t.opt(t.flt)})
    txns = t.lst(lambda: (t.nat(), t.nat(), t.flt(), t.opt(t.flt)))
    return {"days": days, "txns": txns}


class Tally:
    """cell-wise comparison of a real report with the model's: bit-identical / within tolerance / different"""

    def __init__(self):
        self.bit = 0
        self.close = 0
        self.diffs = []

    def num(self, where, real, model):
        r = float("nan") if real is None else float(real)
        m = float("nan") if model is None else float(model)
        if (r != r and m != m) or (r == r and m == m and E.f2b(r) == E.f2b(m)):
            self.bit += 1
        elif r == m or (r == r and m == m and math.isfinite(r) and math.isfinite(m) and abs(r - m) <= 1e-9 * max(1.0, abs(r), abs(m))):
            self.close += 1
        else:
            self.diffs.append((where, {"real": repr(r), "model": repr(m)}))

    def exact(self, where, real, model):
        if real == model:
            self.bit += 1
        else:
            self.diffs.append((where, {"real": repr(real)[:200], "model": repr(model)[:200]}))


def frame_cols(df, T):
    """(column labels, T x n array) of a real report frame; the index must be the first T dates"""
    return [str(c) for c in df.columns], np.asarray(df.values, dtype=float).reshape(len(df.index), len(df.columns))


def compare_reports(h, nid, names, rep, model):
    tl = Tally()
    T = h["T"]
    dates = h["dates"]
    days = model["days"]
    tl.exact("n-dates", T, len(days))
    if len(days) != T:
        return tl

    def check_index(what, obj):
        idx = list(obj.index)
        tl.exact(what + ":index", idx == dates, True)
        return idx == dates

    def frame(what, df, key, optional):
        if df is None:
            return
        empty_model = all(len(d[key]) == 0 for d in days)
        if len(df.columns) == 0:
            # a frame without columns: pandas may keep or drop the index; the model has no entry on any date
            tl.exact(what + ":no-columns", True, empty_model)
            return
        if not check_index(what, df):
            return
        cols, arr = frame_cols(df, T)
        for t in range(T):
            mcols = [names[k] for k, _ in days[t][key]]
            if mcols != cols:
                tl.exact(what + ":columns", cols, mcols)
                return
            for j, (_, x) in enumerate(days[t][key]):
                tl.num("%s[%s][%d]" % (what, cols[j], t), arr[t, j], x)

    frame("weights", rep.get("weights"), "weights", True)
    frame("security_weights", rep.get("security_weights"), "sec_weights", True)
    frame("positions", rep.get("positions"), "positions", False)
    frame("outlays", rep.get("outlays"), "outlays", False)
    frame("get_weights", rep.get("get_weights"), "weights", True)
    frame("get_security_weights", rep.get("get_security_weights"), "sec_weights", True)

    def series(what, s, key):
        if s is None:
            return
        if not check_index(what, s):
            return
        a = np.asarray(s.values, dtype=float)
        for t in range(T):
            tl.num("%s[%d]" % (what, t), a[t], days[t][key])

    series("herfindahl_index", rep.get("herfindahl_index"), "herfindahl")
    series("turnover", rep.get("turnover"), "turnover")
    series("result_prices", rep.get("result_prices"), "price")
    series("stats_prices", rep.get("stats_prices"), "price")
    series("strategy_prices", rep.get("strategy_prices"), "price")

    tx = rep.get("transactions")
    if tx is not None:
        real_rows = txn_rows(tx, dates)
        model_rows = [(d, names[k], q, p) for d, k, q, p in model["txns"]]
        tl.exact("transactions:keys", [(r[0], r[1]) for r in real_rows], [(r[0], r[1]) for r in model_rows])
        if len(real_rows) == len(model_rows):
            for r, m in zip(real_rows, model_rows):
                tl.num("transactions[%s,%s].quantity" % (r[0], r[1]), r[2], m[2])
                tl.num("transactions[%s,%s].price" % (r[0], r[1]), r[3], m[3])
    return tl


def txn_rows(tx, dates):
    """[(date position, ticker, quantity, price)] of a transaction frame, in frame order"""
    pos = {d: i for i, d in enumerate(dates)}
    rows = []
    for (d, s), row in zip(tx.index, np.asarray(tx[["quantity", "price"]].values, dtype=float)):
        rows.append((pos.get(pd.Timestamp(d), -1), str(s), float(row[0]), float(row[1])))
    return rows


# ------------------------------------------------------------------------------------------------ monitor (from the text)
def near(a, b, scale=1.0):
    if a != a and b != b:
        return True
    if a != a or b != b:
        return False
    if a == b:
        return True
    if not (math.isfinite(a) and math.isfinite(b)):
        return False
    return abs(a - b) <= 1e-9 * max(1.0, abs(a), abs(b), scale)


def monitor(h, rep, log):
    """[(key, message)]: each clause of the property recomputed from the node histories `h` and the trade log"""
    out = []
    T = h["T"]
    nodes = h["nodes"]
    root = nodes[0]
    fi = h["fi"]
    secs = [n for n in nodes if n["sec"]]
    strats = [n for n in nodes if not n["sec"]]
    tickers = []
    for n in secs:
        if n["short"] not in tickers:
            tickers.append(n["short"])
    basis = "notl" if fi else "value"
    rootv = np.array(root[basis], dtype=float)
    dates = h["dates"]

    def fail(key, msg):
        if not any(k == key for k, _ in out):
            out.append((key, msg))

    def aligned(what, obj, ncols=None):
        if obj is None:
            return False
        if list(obj.index) != dates:
            fail("C18/%s:index" % what, "%s is not indexed by the run's dates: %d rows for %d dates" % (what, len(obj.index), T))
            return False
        return True

    with np.errstate(all="ignore"):
        # --- component weights: node value over root value (notional under a fixed-income root)
        w = rep.get("weights")
        if aligned("weights", w):
            if sorted(str(c) for c in w.columns) != sorted(n["full"] for n in nodes):
                fail("C18/weights:columns", "weights has columns %s for members %s" % (list(w.columns), [n["full"] for n in nodes]))
            else:
                for n in nodes:
                    want = np.array(n[basis], dtype=float) / rootv
                    got = np.asarray(w[n["full"]].values, dtype=float)
                    for t in range(T):
                        if not near(got[t], want[t]):
                            fail("C18/weights:%s-over-root" % ("notional" if fi else "value"),
                                 "weight of %s on %s is %r; its %s %r over the root's %r is %r" % (n["full"], dates[t].date(), got[t], basis, n[basis][t], rootv[t], want[t]))
                            break
        # --- security weights: same-named securities aggregated; with the strategies' cash fractions they sum to one
        sw = rep.get("security_weights")
        agg = {k: sum(np.array(n[basis], dtype=float) for n in secs if n["short"] == k) for k in tickers}
        if sw is not None and (len(tickers) > 0 or len(sw.columns) > 0) and aligned("security-weights", sw):
            if sorted(str(c) for c in sw.columns) != sorted(tickers):
                fail("C18/security-weights:columns", "security_weights has columns %s for tickers %s" % (list(sw.columns), tickers))
            else:
                for k in tickers:
                    want = agg[k] / rootv
                    got = np.asarray(sw[k].values, dtype=float)
                    for t in range(T):
                        if not near(got[t], want[t]):
                            fail("C18/security-weights:aggregate", "security weight of %s on %s is %r; the %d securities of that name hold %r of the root's %r: %r"
                                 % (k, dates[t].date(), got[t], sum(1 for n in secs if n["short"] == k), agg[k][t], rootv[t], want[t]))
                            break
                if not fi:
                    for t in range(T):
                        v = root["value"][t]
                        if v == 0 or not math.isfinite(v):
                            continue
                        parts = [float(sw[k].values[t]) for k in tickers] + [n["cash"][t] / v for n in strats]
                        gross = sum(abs(x) for x in parts)
                        if not math.isfinite(gross) or gross > 1e6:
                            continue        # weights that are cancellation noise of a huge gross exposure
                        if abs(sum(parts) - 1.0) > 1e-9 * max(1.0, gross):
                            fail("C18/security-weights:sum-to-one", "on %s the security weights %r and the strategies' cash fractions %r add up to %r"
                                 % (dates[t].date(), parts[:len(tickers)], parts[len(tickers):], sum(parts)))
                            break
        # --- positions aggregate per ticker
        p = rep.get("positions")
        aggpos = {k: sum(np.array(n["pos"], dtype=float) for n in secs if n["short"] == k) for k in tickers}
        if p is not None and (len(tickers) > 0 or len(p.columns) > 0) and aligned("positions", p):
            if sorted(str(c) for c in p.columns) != sorted(tickers):
                fail("C18/positions:columns", "positions has columns %s for tickers %s" % (list(p.columns), tickers))
            else:
                for k in tickers:
                    got = np.asarray(p[k].values, dtype=float)
                    for t in range(T):
                        if not near(got[t], aggpos[k][t]):
                            fail("C18/positions:aggregate", "position of %s on %s is %r; the securities of that name record %r (sum %r)"
                                 % (k, dates[t].date(), got[t], [n["pos"][t] for n in secs if n["short"] == k], aggpos[k][t]))
                            break
        # --- Herfindahl index: sum of squared security weights
        hh = rep.get("herfindahl_index")
        if aligned("herfindahl", hh):
            got = np.asarray(hh.values, dtype=float)
            for t in range(T):
                ws = [agg[k][t] / rootv[t] for k in tickers]
                want = sum(x * x for x in ws if x == x)
                if not near(got[t], want):
                    fail("C18/herfindahl:formula", "Herfindahl index on %s is %r; the squared security weights %r add up to %r" % (dates[t].date(), got[t], ws, want))
                    break
        # --- turnover: the lesser of purchases and sales over NAV
        to = rep.get("turnover")
        if aligned("turnover", to):
            got = np.asarray(to.values, dtype=float)
            aggout = {k: sum(np.array(n["outlay"], dtype=float) for n in secs if n["short"] == k) for k in tickers}
            for t in range(T):
                buys = sum(aggout[k][t] for k in tickers if aggout[k][t] >= 0)
                sells = abs(sum(aggout[k][t] for k in tickers if aggout[k][t] < 0))
                nav = root["value"][t]
                want = min(buys, sells) / nav if nav != 0 else float("nan")
                if nav == 0:
                    continue
                if not near(got[t], want):
                    fail("C18/turnover:formula", "turnover on %s is %r; purchases %r, sales %r, NAV %r give %r" % (dates[t].date(), got[t], buys, sells, nav, want))
                    break
        # --- the Result's price series is the strategy's index
        sp = root["price"]
        for nm in ("result_prices", "stats_prices", "strategy_prices"):
            s = rep.get(nm)
            if s is None:
                continue
            if aligned(nm.replace("_", "-"), s):
                got = np.asarray(s.values, dtype=float)
                for t in range(T):
                    if not near(got[t], sp[t]):
                        fail("C18/result-prices:" + nm.split("_")[0], "%s on %s is %r, the strategy's index is %r" % (nm, dates[t].date(), got[t], sp[t]))
                        break
        # --- transactions
        tx = rep.get("transactions")
        if tx is not None:
            out += [kv for kv in monitor_transactions(h, tx, log, tickers, secs, aggpos) if not any(kv[0] == k for k, _ in out)]
    return out


def monitor_transactions(h, tx, log, tickers, secs, aggpos):
    out = []
    T = h["T"]
    dates = h["dates"]

    def fail(key, msg):
        if not any(k == key for k, _ in out):
            out.append((key, msg))
    rows = txn_rows(tx, dates)
    keys = [(r[0], r[1]) for r in rows]
    if any(r[0] < 0 for r in rows) or any(r[1] not in tickers for r in rows) or len(set(keys)) != len(keys) or keys != sorted(keys) \
            or list(tx.index.names) != ["Date", "Security"]:
        fail("C18/transactions:shape", "transaction rows are not unique (date, ticker) pairs of the run in sorted order: %r" % (keys[:8],))
        return out
    if any(r[2] == 0 or r[2] != r[2] for r in rows):
        fail("C18/transactions:shape", "a transaction row has a zero or missing quantity: %r" % ([r for r in rows if r[2] == 0 or r[2] != r[2]][:3],))
    # quantities cumulate to the recorded positions of the securities of that name, on every date
    for k in tickers:
        cum = 0.0
        byd = {r[0]: r[2] for r in rows if r[1] == k}
        gross = 0.0
        for t in range(T):
            cum += byd.get(t, 0.0)
            gross += abs(byd.get(t, 0.0))
            if abs(cum - aggpos[k][t]) > 1e-9 * max(1.0, gross, abs(aggpos[k][t])):
                fail("C18/transactions:cumulate", "quantities of %s cumulate to %r on %s, the securities of that name record %r"
                     % (k, cum, dates[t].date(), [n["pos"][t] for n in secs if n["short"] == k]))
                break
    # per security node: the logged trades cumulate to the recorded positions (ties the list to what was executed)
    datepos = {d: i for i, d in enumerate(dates)}
    trades = {}
    for tr in log:
        t = datepos.get(pd.Timestamp(tr["now"]))
        if t is None:
            continue
        trades.setdefault((tr["sec"], t), []).append(tr)
    for n in secs:
        cum = 0.0
        gross = 0.0
        for t in range(T):
            for tr in trades.get((n["full"], t), []):
                cum += tr["after"][0] - tr["before"][0]
                gross += abs(tr["q"])
            if abs(cum - n["pos"][t]) > 1e-9 * max(1.0, gross):
                fail("C18/transactions:trade-log-vs-positions", "trades of %s executed up to %s add up to %r, its recorded position is %r" % (n["full"], dates[t].date(), cum, n["pos"][t]))
                break
    # per row: net quantity of the executed trades, and price = execution price (cash booked / quantity), spread included
    by_ticker = {}
    for n in secs:
        by_ticker.setdefault(n["short"], []).append(n)
    for (t, k, q, px) in rows:
        ex = [tr for n in by_ticker[k] for tr in trades.get((n["full"], t), [])]
        net = sum(tr["after"][0] - tr["before"][0] for tr in ex)
        gross = sum(abs(tr["q"]) for tr in ex)
        if abs(net - q) > 1e-9 * max(1.0, gross):
            fail("C18/transactions:quantity-vs-trade-log", "%s on %s: listed quantity %r, executed trades %r net %r" % (k, dates[t].date(), q, [tr["q"] for tr in ex], net))
            continue
        if not ex:
            continue
        mult = ex[0]["mult"]
        cash = sum(tr["after"][4] - tr["before"][4] for tr in ex)          # outlay booked, commission excluded, spread included
        spread = sum(tr["after"][5] - tr["before"][5] for tr in ex)
        gross_cash = sum(abs(tr["after"][4] - tr["before"][4]) for tr in ex)
        if len(ex) == 1:
            tr = ex[0]
            sign = 1.0 if tr["q"] > 0 else -1.0
            half = 0.5 * tr["bidoffer"] if (tr["bidoffer"] == tr["bidoffer"]) else 0.0
            want = tr["price"] + sign * half if tr["custom"] is None else tr["custom"]
        else:
            want = cash / (q * mult)
        if px != px or abs(px * q * mult - want * q * mult) > 1e-9 * max(1.0, gross_cash, abs(want * q * mult)):
            branch = "several-trades" if len(ex) > 1 else "single-trade"
            fail("C18/transaction-price:" + branch, "%s on %s: listed price %r for quantity %r; executed %r at market %r with spread paid %r (multiplier %r): execution price %r"
                 % (k, dates[t].date(), px, q, [(tr["sec"], tr["q"]) for tr in ex], ex[0]["price"], spread, mult, want))
    return out


# ------------------------------------------------------------------------------------------------ replay clause
PRICE_COMM = (3, 5)


def build_replay(bt, case, run, h, tx):
    """a second backtest over the same data and settings whose only algo replays `tx`"""
    spec = case["spec"]
    c = bt.core
    kids = []
    seen = set()
    for n in h["nodes"]:
        if n["sec"] and n["short"] not in seen:
            seen.add(n["short"])
            kids.append(getattr(c, n["cls"])(n["short"], multiplier=n["mult"]))
    kids.sort(key=lambda s: s.name)
    cls = bt.FixedIncomeStrategy if h["fi"] else bt.Strategy
    s = cls(run["b"].strategy.name, algos=[bt.algos.ReplayTransactions("transactions")], children=kids)
    add = dict(run["add"])
    add["transactions"] = tx
    if "bidoffer" not in add:
        add["bidoffer"] = {}
    kw = {}
    if spec["comm"][0] != 0:
        kw["commissions"] = E.make_comm(*spec["comm"])
    if case["kind"] == "fi":
        return bt.Backtest(s, run["data"], integer_positions=spec["integer"], additional_data=add, progress_bar=False, **kw)
    return bt.Backtest(s, run["data"], initial_capital=spec["capital"], integer_positions=spec["integer"], additional_data=add, progress_bar=False, **kw)


def run_classes(case, h, log):
    """which excuses of the replay clause apply to this run (from the external trade log)"""
    spec = case["spec"]
    datepos = {d: i for i, d in enumerate(h["dates"])}
    short = {n["full"]: n["short"] for n in h["nodes"]}
    per = {}
    for tr in log:
        per.setdefault((short.get(tr["sec"], tr["sec"]), datepos.get(pd.Timestamp(tr["now"]))), []).append(tr)
    cls = set()
    for (k, t), l in per.items():
        if len(l) > 1:
            signs = {tr["q"] > 0 for tr in l}
            cls.add("round-trip" if len(signs) > 1 else "split-trades")
    spread = any((tr["after"][5] - tr["before"][5]) != 0 for tr in log)
    if spread and spec["comm"][0] in PRICE_COMM:
        cls.add("spread-and-price-commission")
    stacks = []
    if case["kind"] == "gen":
        stacks = [spec["tree"]["stack"]] + [k["stack"] for k in spec["tree"]["kids"]]
    if any(d[0] in ("CapitalFlow", "QuietOps") for st in stacks for d in st):
        cls.add("flows")
    return cls


CAUSES = ["round-trip", "split-trades", "spread-and-price-commission"]     # the remaining defects of the replay clause


def _cost(tr):
    return tr["before"][1] - tr["after"][1]          # what the trade took from the strategy's cash (commission included)


def _outlay(tr):
    return tr["after"][4] - tr["before"][4]          # outlay booked (spread included, commission excluded)


def attribute_costs(h, log1, log2, scale):
    """compares, per (ticker, date), the cash the original trades took with the cash the replayed row took, and names the
    cause of every difference: {cause: message}, plus the cost difference per date.  Causes: 'round-trip' (trades of both
    directions netted or vanished), 'split-trades' (several same-direction trades listed as one row: non-linear commission),
    'spread-and-price-commission' (the replayed commission is charged on the spread-inclusive price), 'plain' (anything else)."""
    datepos = {d: i for i, d in enumerate(h["dates"])}

    def groups(log):
        g = {}
        for tr in log:
            g.setdefault((tr["sec"].split(">")[-1], datepos.get(pd.Timestamp(tr["now"]))), []).append(tr)
        return g
    g1 = groups(log1)
    g2 = groups(log2)
    amount = {}       # cause -> total absolute cash difference attributed to it
    worst = {}        # cause -> (largest single difference, message)
    per_date = {}
    cap = 1.0
    for key in sorted(set(g1) | set(g2), key=lambda kt: (kt[1] if kt[1] is not None else -1, kt[0])):
        k, t = key
        l1 = g1.get(key, [])
        l2 = g2.get(key, [])
        o1 = sum(_outlay(tr) for tr in l1)
        o2 = sum(_outlay(tr) for tr in l2)
        f1 = sum(_cost(tr) - _outlay(tr) for tr in l1)
        f2 = sum(_cost(tr) - _outlay(tr) for tr in l2)
        cap = max([cap] + [abs(tr["before"][1]) for tr in l1 + l2] + [abs(_outlay(tr)) for tr in l1 + l2])
        per_date[t] = per_date.get(t, 0.0) + (o2 + f2) - (o1 + f1)
        where = "%s on %s" % (k, h["dates"][t].date() if t is not None else "?")

        def add(cause, x, msg):
            amount[cause] = amount.get(cause, 0.0) + abs(x)
            if abs(x) > worst.get(cause, (0.0, ""))[0]:
                worst[cause] = (abs(x), "%s: %s" % (where, msg))
        if not l1 or len(l2) > 1:
            add("plain", (o2 + f2) - (o1 + f1), "the replay traded %r where the original traded %r" % ([tr["q"] for tr in l2], [tr["q"] for tr in l1]))
            continue
        mixed = len({tr["q"] > 0 for tr in l1}) > 1
        several = "round-trip" if mixed else "split-trades"
        q = sum(tr["after"][0] - tr["before"][0] for tr in l1)
        p, m, comm = l1[0]["price"], l1[0]["mult"], l1[0]["comm"]
        spread = sum(tr["after"][5] - tr["before"][5] for tr in l1)
        fee_mid = float(comm(q, p * m)) if l2 else 0.0       # commission of ONE trade of the net quantity at the market price
        if mixed and not l2:
            add("round-trip", o2 - o1, "trades %r net to nothing and are not listed: their outlay %r (spread) is not replayed" % ([tr["q"] for tr in l1], o1))
        else:
            add("plain", o2 - o1, "outlay of the original trades %r, of the replayed row %r" % (o1, o2))
        if len(l1) > 1:
            add(several, fee_mid - f1, "trades %r paid %r of commission; one trade of the net quantity %r pays %r" % ([tr["q"] for tr in l1], f1, q, fee_mid))
        else:
            add("plain", fee_mid - f1, "the single trade %r paid %r of commission, recomputed %r" % (l1[0]["q"], f1, fee_mid))
        if l2:
            px = l2[0]["custom"]
            expect = float(comm(l2[0]["q"], px * m)) if px is not None else float("nan")
            if spread != 0 and abs(f2 - expect) <= 1e-9 * max(1.0, abs(expect), abs(f2)) + 1e-15 * cap:
                add("spread-and-price-commission", f2 - fee_mid, "commission at the market price %r is %r, the replay charged %r on the listed price %r" % (p, fee_mid, f2, px))
            else:
                add("plain", f2 - fee_mid, "the replayed row paid %r of commission; at the market price %r, at its listed price %r" % (f2, fee_mid, expect))
    # a cause counts when the cash attributed to it is visible at the scale the values are judged at (the trade logs measure
    # cash as differences of the strategy's capital: absolute noise ~1e-16 x capital per trade)
    causes = {c: worst[c][1] for c in amount if amount[c] > 2e-10 * scale}     # values are judged at 1e-9 x scale, four causes
    gross = cap
    return causes, per_date, gross


def replay_clause(bt, case, run, h, rep, log):
    """returns (violations, info) where info carries the replay backtest for the model comparison"""
    out = []
    tx = rep.get("transactions")
    if tx is None:
        return out, None
    b = run["b"]
    cls = run_classes(case, h, log)
    try:
        with R.trade_log(bt) as log2:
            b2 = build_replay(bt, case, run, h, tx)
            b2.run()
    except Exception as e:  # noqa
        out.append(("C18/replay-raised:%s" % type(e).__name__, "replaying the transaction list raised %s: %s" % (type(e).__name__, str(e)[:200])))
        return out, None
    top2 = id(b2.strategy)
    log2 = [t for t in log2 if t["paper"] == top2]
    tickers = sorted({n["short"] for n in h["nodes"] if n["sec"]})
    dates = h["dates"]
    T = h["T"]
    try:
        p1 = b.positions
        p2 = b2.positions
    except Exception as e:  # noqa
        out.append(("C18/replay-raised:positions:%s" % type(e).__name__, "positions of the replay could not be read: %s" % str(e)[:200]))
        return out, None
    info = {"b2": b2, "classes": sorted(cls)}
    bad = None
    # a replay that goes bankrupt where the original did not (its values are already off: reported below) is liquidated
    # by the engine; its positions say nothing about the list any more
    liquidated = bool(b2.strategy.bankrupt) and not bool(b.strategy.bankrupt)
    info["liquidated"] = liquidated
    for k in ([] if liquidated else tickers):
        a1 = np.asarray(p1[k].values, dtype=float) if k in p1.columns else np.zeros(T)
        a2 = np.asarray(p2[k].values, dtype=float) if k in p2.columns else np.zeros(T)
        if len(a1) != len(a2):
            bad = "%s: %d rows against %d" % (k, len(a1), len(a2))
            break
        gross = float(np.max(np.abs(a1))) if len(a1) else 0.0
        for t in range(len(a1)):
            if abs(a1[t] - a2[t]) > 1e-9 * max(1.0, gross):
                bad = "%s on %s: original position %r, replayed %r" % (k, dates[t].date(), a1[t], a2[t])
                break
        if bad:
            break
    if bad:
        out.append(("C18/replay-positions:mismatch", "replaying the transaction list does not reproduce the positions: " + bad))
    if "flows" in cls:
        return out, info
    v1 = np.asarray(b.strategy.values.values, dtype=float)
    v2 = np.asarray(b2.strategy.values.values, dtype=float)
    if len(v1) != len(v2):
        out.append(("C18/replay-values:plain", "value series of different length: %d vs %d" % (len(v1), len(v2))))
        return out, info
    scale = max(1.0, float(np.max(np.abs(v1))) if len(v1) else 1.0)
    first = next((t for t in range(len(v1)) if not (abs(v1[t] - v2[t]) <= 1e-9 * scale)), None)
    # the cause of a difference is read off the cash each (ticker, date) took in the two runs (external trade logs)
    causes, per_date, gross = attribute_costs(h, log, log2, scale)
    if not liquidated and not b.strategy.bankrupt and not bad:
        # with equal positions and prices the value difference is minus the cumulated cost difference: anything else is unexplained
        cum = 0.0
        for t in range(len(v1)):
            cum += per_date.get(t, 0.0)
            if not (abs((v2[t] - v1[t]) + cum) <= 1e-9 * max(scale, gross)):
                causes.setdefault("plain", "on %s the values differ by %r, the costs of the listed and vanished trades by %r" % (dates[t].date(), v2[t] - v1[t], cum))
                break
    if first is not None:
        if not causes:
            causes["plain"] = "no (ticker, date) paid a different amount in the two runs"
        for c in CAUSES + ["plain"]:
            if c in causes:
                out.append(("C18/replay-values:" + c, "replaying the transaction list does not reproduce the values: first on %s original %r, replayed %r; cause %s — %s"
                            % (dates[first].date(), v1[first], v2[first], c, causes[c])))
    return out, info


def replay_coarse_clause(bt, case, run, h, tx, cls, rng_seed):
    """The run's transaction list replayed over a COARSER timeline (a subset of the run's dates that keeps the last one): every listed
    trade is executed in the window of the kept date on or after its stamp, at its listed price, so on the kept dates positions and
    values are the original's.  Only runs without any of the replay clause's known excuses, without bid/offer data and without
    commissions (a commission is a function of each single trade either way, but keeping the clause to cost-free lists makes the
    expected cash a plain sum over the listed rows).  Returns a list of violations."""
    spec = case["spec"]
    if case["kind"] != "gen" or cls or spec.get("bidoffer") or spec["comm"][0] != 0 or run["b"].strategy.bankrupt:
        return [], "skipped"
    data = run["data"]
    n = len(data.index)
    if n < 4 or tx is None or len(tx) == 0:
        return [], "skipped"
    rng = random.Random(rng_seed)
    k = rng.choice([2, 3, 5])
    off = 0     # the first date is always kept: rows stamped at or before the replay's synthetic first row would never be executed
    keep = sorted(set(range(off, n, k)) | {n - 1})
    if rng.random() < 0.3:
        keep = list(range(n))        # ... and on the run's own timeline (with a quoted spread this is the plain replay clause once more)
    if len(keep) == n and n < 2:
        return [], "skipped"
    data2 = data.iloc[keep]
    c = bt.core
    kids = []
    seen = set()
    for nd in h["nodes"]:
        if nd["sec"] and nd["short"] not in seen:
            seen.add(nd["short"])
            kids.append(getattr(c, nd["cls"])(nd["short"], multiplier=nd["mult"]))
    kids.sort(key=lambda x: x.name)
    s2 = bt.Strategy(run["b"].strategy.name, algos=[bt.algos.ReplayTransactions("transactions")], children=kids)
    out = []
    # every listed row is executed at its listed price: a spread quoted to the replaying strategy must not matter (half of the cases
    # hand the replay a bid/offer frame with real spreads; on the kept dates the listed price often IS the market price)
    quoted = rng.random() < 0.5
    bo = pd.DataFrame(0.5, index=data2.index, columns=data2.columns) if quoted else {}
    try:
        b2 = bt.Backtest(s2, data2, initial_capital=spec["capital"], integer_positions=spec["integer"],
                         additional_data={"transactions": tx, "bidoffer": bo}, progress_bar=False)
        b2.run()
    except Exception as e:  # noqa
        return [("C18/replay-coarse:raised:%s" % type(e).__name__, "replaying the list on every %d-th date raised %s: %s" % (k, type(e).__name__, str(e)[:200]))], "raised"
    if b2.strategy.bankrupt:
        return [], "liquidated"
    p1, p2 = run["b"].positions, b2.positions
    v1, v2 = run["b"].strategy.values, b2.strategy.values
    scale = max(1.0, float(np.max(np.abs(np.asarray(v1.values, dtype=float)))))
    multi = 0
    for j, d in enumerate(data2.index):
        lo = data2.index[j - 1] if j else None
        stamps = tx.index.get_level_values(0)
        win = tx[(stamps <= d) & ((stamps > lo) if lo is not None else True)]
        if len(win) and win.index.get_level_values(1).duplicated().any():
            multi += 1
        for kname in sorted(seen):
            a1 = float(p1[kname].loc[d]) if kname in p1.columns else 0.0
            a2 = float(p2[kname].loc[d]) if kname in p2.columns else 0.0
            if abs(a1 - a2) > 1e-9 * max(1.0, abs(a1)):
                out.append(("C18/replay-coarse:positions", "list replayed on every %d-th date (+%d): %s on %s holds %r, the original run %r" % (k, off, kname, d.date(), a2, a1)))
                return out, "judged"
        x1, x2 = float(v1.loc[d]), float(v2.loc[d])
        if not abs(x1 - x2) <= 1e-9 * scale:
            out.append(("C18/replay-coarse:values", "list replayed on every %d-th date (+%d): value on %s is %r, the original run's %r (%d windows so far held several trades of one name)"
                        % (k, off, d.date(), x2, x1, multi)))
            return out, "judged"
    return out, ("judged:multi" if multi else "judged") + (":spread-quoted" if quoted else "")


def replay_request(bt, case, h, b2, tx, nid):
    """`report replay` request for the real replay backtest `b2` (market-value root, plain securities), or None"""
    spec = case["spec"]
    root = b2.strategy
    secs = [n for n in root.members if isinstance(n, bt.core.SecurityBase)]
    if h["fi"] or any(type(n).__name__ != "Security" for n in secs):
        return None
    dates = h["dates"]
    T = h["T"]
    rows = txn_rows(tx, dates)
    comm = spec["comm"]
    toks = ["report replay", E.tB(bool(root._bidoffer_set)), E.tF(TOL), str(comm[0]), E.tF(comm[1]), E.tF(comm[2]), E.tF(spec["capital"]),
            str(len(secs))]
    for n in secs:
        toks += [str(nid[n.name]), E.tF(n.multiplier)]
    toks.append(str(len(rows)))
    for (t, k, q, px) in rows:
        toks += [str(t), str(nid[k]), tOF(q), tOF(px)]
    toks += ["1", str(T - 1)]
    for t in range(1, T):
        toks.append(str(len(secs)))
        for n in secs:
            toks += [str(nid[n.name]), tOF(float(n._prices.values[t]))]
    return " ".join(toks)


def compare_replay(bt, h, b2, line, nid, names):
    tl = Tally()
    root = b2.strategy
    secs = [n for n in root.members if isinstance(n, bt.core.SecurityBase)]
    T = h["T"]
    if not line.startswith("ok "):
        tl.exact("replay:completed", "ok", line[:80])
        return tl
    t = E._Toks(line[3:])
    n_days = t.nat()
    tl.exact("replay:n-dates", T - 1, n_days)
    if n_days != T - 1:
        return tl
    for d in range(1, T):
        cash = t.flt()
        pos = t.lst(lambda: (t.nat(), t.flt()))
        if t.peek() == "E":
            t.next()
            value = ("E", t.next())
        else:
            value = t.flt()
        tl.num("replay.cash[%d]" % d, float(root._cash.values[d]), cash)
        tl.exact("replay.children", [n.name for n in secs], [names[k] for k, _ in pos])
        for n, (_, x) in zip(secs, pos):
            tl.num("replay.position[%s][%d]" % (n.name, d), float(n._positions.values[d]), x)
        if isinstance(value, tuple):
            tl.exact("replay.value[%d]" % d, "number", value)
        else:
            tl.num("replay.value[%d]" % d, float(root._values.values[d]), value)
    return tl


# ------------------------------------------------------------------------------------------------ driver of one batch
def classify(ctx, case, h, log, rep, cls):
    spec = case["spec"]
    nsec = {}
    for n in h["nodes"]:
        if n["sec"]:
            nsec[n["short"]] = nsec.get(n["short"], 0) + 1
    shared = any(v > 1 for v in nsec.values())
    n_strat = sum(1 for n in h["nodes"] if not n["sec"])
    spread = any((tr["after"][5] - tr["before"][5]) != 0 for tr in log)
    ctx.count("variant:" + case["variant"])
    ctx.count("tree:%d-strategies" % n_strat)
    ctx.count("securities:%s" % ("none" if not nsec else "some"))
    ctx.count("traded:%s" % bool(log))
    if shared:
        ctx.count("shared-ticker-runs")
    if spread:
        ctx.count("runs-paying-spread")
    if h["fi"]:
        ctx.count("fixed-income-roots")
    for c in cls:
        ctx.count("class:" + c)
    if any(n["mult"] != 1.0 for n in h["nodes"] if n["sec"]):
        ctx.count("runs-with-multipliers")
    if any(x < 0 for n in h["nodes"] if n["sec"] for x in n["pos"]):
        ctx.count("runs-with-shorts")
    ctx.classes.add((case["variant"], n_strat, len(nsec), bool(spec["integer"]), spec["comm"][0], spread, shared,
                     tuple(sorted(c for c in cls)), bool(log), h["fi"]))


def judge(ctx, bt, cases, corr="report", do_replay=True):
    """runs the cases on the real code, compares with the model (two batched driver calls), applies the monitor"""
    done = []
    for case in cases:
        ctx.evaluations += 1
        run = execute(bt, case)
        if "exc" in run:
            ctx.count("program-raised:" + run["exc"])
            continue
        ctx.count("program-completed")
        b = run["b"]
        rep = real_reports(bt, b, case.get("read_order"))
        h = histories(bt, b)
        rd = {"case": case}
        for nm, msg in rep["raised"].items():
            ctx.violation("C18/report-raised:%s:%s" % (nm, msg.split(":")[0]), "report %s raised %s" % (nm, msg), rd)
        if not finite_histories(h):
            ctx.count("non-finite-history-skipped")
            continue
        log = run["log"]
        cls = run_classes(case, h, log)
        classify(ctx, case, h, log, rep, cls)
        try:
            found = monitor(h, rep, log)
        except Exception as e:  # noqa: the reports are so malformed that the text cannot be evaluated
            found = []
            ctx.count("monitor-could-not-evaluate:" + type(e).__name__)
            ctx.disagreement(corr + ":monitor-could-not-evaluate", {"error": repr(e)[:300]}, rd)
        info = None
        if do_replay:
            try:
                v, info = replay_clause(bt, case, run, h, rep, log)
                found += v
                ctx.count("replays-run")
                v2, how = replay_coarse_clause(bt, case, run, h, rep.get("transactions"), cls, case.get("coarse_seed", 0))
                found += v2
                ctx.count("replay-coarse:" + how)
            except Exception as e:  # noqa
                ctx.count("replay-could-not-evaluate:" + type(e).__name__)
                ctx.disagreement(corr + ":replay-could-not-evaluate", {"error": repr(e)[:300]}, rd)
        for key, msg in found:
            msg = re.sub(r"np\.float64\(([^()]*)\)", r"\1", msg)
            ctx.violation(key, msg, rd)
            ctx.count("monitor:" + key)
        nid, names = name_ids(h)
        done.append((case, h, rep, nid, names, info))
        if len(ctx.samples) < 3:
            ctx.sample({"variant": case["variant"], "members": [n["full"] for n in h["nodes"]], "dates": h["T"], "trades": len(log),
                        "transactions": None if rep.get("transactions") is None else len(rep["transactions"]), "classes": sorted(cls)})
    # --- model: reports
    lines = [hist_request(h, nid) for (_, h, _, nid, _, _) in done]
    answers = leanrun.run_lines(lines)
    n_dis = 0
    bit = close = 0
    for (case, h, rep, nid, names, info), ans in zip(done, answers):
        model = parse_hist_answer(ans)
        if model is None:
            n_dis += 1
            ctx.disagreement(corr + ":model-answer", {"answer": ans[:200]}, {"case": case})
            continue
        tl = compare_reports(h, nid, names, rep, model)
        bit += tl.bit
        close += tl.close
        for where, detail in tl.diffs[:5]:
            n_dis += 1
            ctx.disagreement("%s:%s" % (corr, where.split("[")[0]), dict(detail, where=where), {"case": case})
    ctx.count("report-cells-bit-identical", bit)
    ctx.count("report-cells-within-1e-9", close)
    ctx.protocols.append((corr, len(done), n_dis))
    # --- model: ReplayTransactions
    if do_replay:
        reqs = []
        for (case, h, rep, nid, names, info) in done:
            if info is None or rep.get("transactions") is None:
                continue
            if info["b2"].strategy.bankrupt:
                ctx.count("replay-model-skipped:bankrupt")
                continue
            line = replay_request(bt, case, h, info["b2"], rep["transactions"], nid)
            if line is None:
                ctx.count("replay-model-skipped:fixed-income-or-special-securities")
                continue
            reqs.append((case, h, info, nid, names, line))
        answers = leanrun.run_lines([r[5] for r in reqs])
        n_dis = 0
        bit = close = 0
        for (case, h, info, nid, names, _), ans in zip(reqs, answers):
            tl = compare_replay(bt, h, info["b2"], ans, nid, names)
            bit += tl.bit
            close += tl.close
            for where, detail in tl.diffs[:5]:
                n_dis += 1
                ctx.disagreement("replay:%s" % where.split("[")[0], dict(detail, where=where), {"case": case})
        ctx.count("replay-cells-bit-identical", bit)
        ctx.count("replay-cells-within-1e-9", close)
        ctx.protocols.append((corr.replace("report", "replay"), len(reqs), n_dis))


def corpus_cases():
    out = []
    for p in sorted(glob.glob(os.path.join(HERE, "corpus", "C18_*.json"))):
        d = json.load(open(p))
        for c in d["cases"]:
            c = dict(c)
            c["variant"] = "corpus:" + os.path.basename(p)[4:-5]
            out.append(c)
    return out


def run(ctx, bt):
    judge(ctx, bt, corpus_cases(), corr="report:corpus")
    n = ctx.scale(320, 4000)
    cases = [gen_case(ctx.rng, VARIANTS[i % len(VARIANTS)] if i < 2 * len(VARIANTS) else None) for i in range(n)]
    judge(ctx, bt, cases, corr="report")
    # the clause "replaying a run's transaction list reproduces its positions and values" on a coarser timeline (several fills of a
    # name inside one replay window, round trips included): cost-free books that turn over daily
    judge(ctx, bt, [gen_churn_case(ctx.rng) for _ in range(ctx.scale(30, 400))], corr="report:daily-churn")
    # ReplayTransactions / SimulateRFQTransactions as whole programs (`Bt.Prog.progRunR`, the subject of `C18.replay_positions`):
    # complete backtests, every node history compared with the model bit for bit
    from .. import whole_run_r as WR
    WR.blotter_whole_run_protocol(ctx, bt, ctx.scale(12, 200), "whole-run-r[C18]")
    # the framework starts the failing-input search only when there is no violation at all; listed findings are always
    # present here (the corpus witnesses), so start it ourselves when every violation so far is a listed one
    if ctx.disagreements and ctx.violations:
        from ..framework import load_known
        known = {k["key"] for k in load_known() if k.get("property") == "C18" and k.get("status") == "finding"}
        if all(v["key"] in known for v in ctx.violations):
            ctx.notes.append("correspondence broke (only listed findings so far): failing-input search started")
            search(ctx, bt)


def search(ctx, bt):
    variants = sorted({d["replay_data"]["case"]["variant"] for d in ctx.disagreements if "case" in d["replay_data"]})
    variants = [v for v in variants if v in VARIANTS] or None
    n = ctx.scale(400, 4000)
    cases = [gen_case(ctx.rng, ctx.rng.choice(variants) if variants and ctx.rng.random() < 0.7 else None) for _ in range(n)]
    judge(ctx, bt, cases, corr="report:search")


def replay(bt, data, ctx):
    judge(ctx, bt, [data["case"]["case"]], corr="report:replay")
