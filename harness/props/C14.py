"""C14 selection algos: every generated call is executed on the real algo (tiny Strategy, setup, update, temp, call —
or a whole Backtest with tapped selection stacks), re-executed by the Lean model (`select` protocol) and judged by an
independently written monitor (the documented set computed from the raw table with plain Python)."""
import json
import math
import random as pyrandom
import re
from collections import Counter

import numpy as np
import pandas as pd

from .. import leanrun
from ..engine import tB, tF, tL, tO, b2f

RULE = ("generated universes (3-14 dates on daily/business/weekly/sparse calendars, 1-7 columns, late listings, NaN gaps, delistings, "
        "zero and negative prices, constant columns for ties, three numeric grids) x date x algo x parameters x prior temp; each call runs "
        "the real algo on a real Strategy (direct call) or inside a Backtest (tapped stacks), the Lean model answers the same request, "
        "an independent monitor recomputes the documented set; SelectActive is also judged inside life-cycle histories (the real "
        "ClosePositionsAfterDates / RollPositionsAfterDates running every day in front of it; names held, sold earlier or never bought "
        "when their date passes and asked for afterwards).  distinct =(algo, flags/parameter class, outcome, prior shape, "
        "what the current row contains)")
ASSUMPTIONS = [
    "pandas Timestamp - DateOffset arithmetic and Timestamp comparison (window bounds are resolved with them on the Python side and "
    "checked against the index of the frame the algo actually slices, observed by wrapping DataFrame.count / calc_total_return)",
    "random.sample returns k distinct positions of its population; re.search decides the name filter (both are parameters of the model)",
    "isinstance on bt.core classes follows the class hierarchy transcribed in Bt.Select.Ty.parent",
    "real-valued statistics compared with 1e-9 relative tolerance",
]

ALGO_NAME = {"all": "SelectAll", "these": "SelectThese", "hasdata": "SelectHasData", "n": "SelectN", "tr": "StatTotalReturn",
             "mom": "SelectMomentum", "setstat": "SetStat", "where": "SelectWhere", "rand": "SelectRandomly", "regex": "SelectRegex",
             "types": "SelectTypes", "active": "SelectActive", "resolve": "ResolveOnTheRun"}
KINDS = list(ALGO_NAME)
NAMES = ["aa", "ab", "b1", "c", "x9", "zq", "d2", "ea", "f", "g7"]
UNKNOWN = ["zz9", "nope"]
ALIASES = ["X", "Y", "Z"]
REGEXES = ["^a", "b", "[0-9]$", ".", "^$", "x|z", "^[a-c]"]
TYPES = ["Node", "StrategyBase", "SecurityBase", "Strategy", "Security", "FixedIncomeStrategy", "FixedIncomeSecurity",
         "CouponPayingSecurity", "HedgeSecurity", "CouponPayingHedgeSecurity"]
CHILD_TYPES = ["Security", "FixedIncomeSecurity", "CouponPayingSecurity", "HedgeSecurity", "CouponPayingHedgeSecurity", "Strategy",
               "FixedIncomeStrategy"]


# ------------------------------------------------------------------ small helpers
def isnan(x):
    return isinstance(x, float) and x != x


def cell(x):
    """frame cell -> JSON-able (None = NaN)"""
    if x is None:
        return None
    if isinstance(x, (bool, np.bool_)):
        return bool(x)
    if isinstance(x, str):
        return x
    x = float(x)
    return None if x != x else x


def offset(o):
    return pd.DateOffset(**o)


def close(a, b):
    if a is None or b is None:
        return a is None and b is None
    if math.isinf(a) or math.isinf(b):
        return a == b
    return abs(a - b) <= 1e-9 * max(1.0, abs(a), abs(b))


# ------------------------------------------------------------------ generators
def gen_dates(rng):
    n = rng.randint(3, 14)
    kind = rng.choice(["daily", "daily", "business", "weekly", "sparse", "yearend", "monthend"])
    start = pd.Timestamp(rng.choice(["2019-12-20", "2020-01-01", "2020-02-24", "2021-06-28", "2016-02-25"]))
    if kind == "daily":
        d = pd.date_range(start, periods=n, freq="D")
    elif kind == "business":
        d = pd.bdate_range(start, periods=n)
    elif kind == "weekly":
        d = pd.date_range(start, periods=n, freq="W-FRI")
    elif kind == "monthend":
        d = pd.date_range(start, periods=n, freq="BME")
    elif kind == "yearend":
        d = pd.bdate_range(pd.Timestamp("2019-12-24") + pd.DateOffset(days=rng.randint(0, 3)), periods=n)
    else:
        cur = start
        out = []
        for _ in range(n):
            out.append(cur)
            cur = cur + pd.DateOffset(days=rng.choice([1, 1, 2, 3, 5, 9, 17, 40]))
        d = pd.DatetimeIndex(out)
    return kind, [str(x.date()) for x in d]


def gen_prices(rng, ndates, ncols):
    grid = rng.choice(["int", "dyadic", "real"])
    cols = []
    feats = []
    for _ in range(ncols):
        pat = rng.choice(["plain", "plain", "late", "gaps", "delist", "zero", "neg", "const", "mixed", "allnan"] if rng.random() < 0.9 else ["allnan"])
        if grid == "int":
            p = float(rng.randint(1, 6))
        elif grid == "dyadic":
            p = rng.randint(1, 64) / 8.0
        else:
            p = rng.uniform(0.5, 150.0)
        v = []
        for i in range(ndates):
            v.append(p)
            if pat != "const":
                if grid == "int":
                    p = max(1.0, p + rng.choice([-1, 0, 0, 1, 1]))
                elif grid == "dyadic":
                    p = max(0.125, p + rng.choice([-4, -1, 0, 1, 2, 8]) / 8.0)
                else:
                    p = p * math.exp(rng.gauss(0.0, 0.05))
        k = rng.randint(0, ndates)
        if pat == "late":
            v = [None] * k + v[k:]
        elif pat == "delist":
            v = v[:k] + [None] * (ndates - k)
        elif pat == "gaps":
            v = [None if rng.random() < 0.35 else x for x in v]
        elif pat == "zero":
            v = [0.0 if rng.random() < 0.4 else x for x in v]
        elif pat == "neg":
            v = [-x if rng.random() < 0.4 else x for x in v]
        elif pat == "mixed":
            v = [rng.choice([None, 0.0, -x, x, x, x]) for x in v]
        elif pat == "allnan":
            v = [None] * ndates
        cols.append(v)
        feats.append(pat)
    rows = [[cols[c][i] for c in range(ncols)] for i in range(ndates)]
    return grid, feats, rows


def gen_offset(rng, maxdays, maxmonths):
    r = rng.random()
    if r < 0.7:
        return {"days": rng.choice([0, 0, 1, 1, 2, 3, 5, 7, 10, 14, 30, maxdays])}
    if r < 0.9:
        return {"months": rng.randint(0, maxmonths)}
    return {"weeks": rng.randint(0, 3)}


def gen_selection(rng, ucols, pool_extra=(), allow_missing=True):
    """a prior temp['selected']: None (absent) or {"list": [...], "index": bool}"""
    r = rng.random()
    if allow_missing and r < 0.25:
        return None
    base = list(ucols)
    rng.shuffle(base)
    k = rng.randint(0, len(base))
    sel = base[:k] if rng.random() < 0.7 else list(ucols)
    shape = "subset"
    r = rng.random()
    if r < 0.05 and sel:
        sel = sel + [rng.choice(sel)]
        shape = "dup"
    elif r < 0.10:
        sel = sel + [rng.choice(UNKNOWN)]
        shape = "unknown"
    elif r < 0.14:
        sel = []
        shape = "empty"
    for x in pool_extra:
        if rng.random() < 0.6:
            sel.insert(rng.randint(0, len(sel)), x)
    as_index = rng.random() < 0.12 and len(set(sel)) == len(sel)
    return {"list": sel, "index": as_index, "shape": shape}


def gen_stat(rng, ucols):
    if rng.random() < 0.03:
        return None
    keys = list(ucols)
    if rng.random() < 0.2:
        keys.append(rng.choice(UNKNOWN))
    rng.shuffle(keys)
    if rng.random() < 0.1:
        keys = keys[:rng.randint(0, len(keys))]
    mode = rng.choice(["ties", "ties", "distinct", "real"])
    vals = []
    for i, _ in enumerate(keys):
        r = rng.random()
        if r < 0.15:
            vals.append(None)
        elif r < 0.19:
            vals.append(rng.choice([float("inf"), float("-inf")]))
        elif mode == "ties":
            vals.append(float(rng.randint(-2, 2)))
        elif mode == "distinct":
            vals.append(float(i * 3 - 7) / 4.0 * rng.choice([1, -1]) + 100 * (i % 2))
        else:
            vals.append(rng.gauss(0, 1))
    return {"keys": keys, "vals": vals, "mode": mode}


def gen_n(rng):
    r = rng.random()
    if r < 0.55:
        return rng.choice([0, 1, 1, 2, 2, 3, 4, 5, 8])
    if r < 0.92:
        return rng.choice([0.1, 0.25, 0.3, 0.5, 0.7, 0.9, 0.99, 0.29, 0.0, round(rng.random(), 3)])
    if r < 0.96:
        return rng.choice([1.0, 2.0, 2.5])
    return rng.choice([-1, -0.5])


def gen_frame_index(rng, dates, now):
    """index of an auxiliary frame: all dates, a subset, or without the current date"""
    r = rng.random()
    if r < 0.6:
        return list(dates)
    if r < 0.85:
        return [d for d in dates if rng.random() < 0.7] or [dates[0]]
    return [d for i, d in enumerate(dates) if i != now] or [dates[0]]


def gen_case(rng, kind=None):
    kind = kind or rng.choice(KINDS)
    cal, dates = gen_dates(rng)
    ncols = rng.randint(1, 7)
    names = NAMES[:]
    rng.shuffle(names)
    cols = names[:ncols]
    grid, feats, rows = gen_prices(rng, len(dates), ncols)
    now = rng.randint(0, len(dates) - 1) if rng.random() < 0.8 else len(dates) - 1
    children = None
    if rng.random() < 0.3 and kind != "types":
        children = [c for c in cols if rng.random() < 0.7]
    case = {"dates": dates, "cols": cols, "vals": rows, "children": children, "now": now, "kind": kind,
            "gen": {"calendar": cal, "grid": grid, "features": feats}, "rseed": rng.randint(0, 10 ** 6),
            "noise": rng.random() < 0.3, "prior_selected": None, "prior_stat": None, "extra": {}, "p": {}}
    ucols = cols if children is None else [c for c in cols if c in children]
    p = case["p"]
    flags = rng.random()
    if flags < 0.4:
        p["nd"], p["neg"] = False, False
    else:
        p["nd"], p["neg"] = rng.random() < 0.45, rng.random() < 0.5
    if kind == "all":
        pass
    elif kind == "these":
        case["prior_selected"] = gen_selection(rng, ucols) if rng.random() < 0.3 else None
        t = gen_selection(rng, ucols, allow_missing=False)
        p["tickers"] = t["list"]
        p["tshape"] = t["shape"]
    elif kind == "hasdata":
        p["lookback"] = gen_offset(rng, 40, 3)
        p["min_count"] = None if rng.random() < 0.2 else rng.choice([0, 1, 1, 2, 2, 3, 4, 6, 2.5])
        case["prior_selected"] = gen_selection(rng, ucols)
    elif kind == "n":
        case["prior_stat"] = gen_stat(rng, ucols)
        case["prior_selected"] = gen_selection(rng, ucols)
        p["n"] = gen_n(rng)
        p["desc"] = rng.random() < 0.6
        p["aon"] = rng.random() < 0.3
        p["fs"] = rng.random() < 0.5
    elif kind in ("tr", "mom"):
        p["lookback"] = gen_offset(rng, 30, 2)
        p["lag"] = gen_offset(rng, 10, 1) if rng.random() < 0.6 else {"days": 0}
        case["prior_selected"] = gen_selection(rng, ucols) if rng.random() < 0.95 else None
        if case["prior_selected"] is None and rng.random() < 0.7:
            case["prior_selected"] = {"list": list(ucols), "index": False, "shape": "subset"}
        if kind == "mom":
            p["n"] = gen_n(rng)
            p["desc"] = rng.random() < 0.6
            p["aon"] = rng.random() < 0.3
    elif kind == "setstat":
        idx = gen_frame_index(rng, dates, now)
        scols = list(ucols) + ([rng.choice(UNKNOWN)] if rng.random() < 0.2 else [])
        rng.shuffle(scols)
        vals = [[rng.choice([None, float(rng.randint(-3, 3)), rng.gauss(0, 1)]) for _ in scols] for _ in idx]
        case["extra"]["frame"] = {"dates": idx, "cols": scols, "vals": vals}
        p["by_name"] = rng.random() < 0.6
        p["lag"] = gen_offset(rng, 5, 1) if rng.random() < 0.6 else {"days": 0}
        case["prior_stat"] = gen_stat(rng, ucols) if rng.random() < 0.3 else None
    elif kind == "where":
        idx = gen_frame_index(rng, dates, now)
        scols = [c for c in ucols if rng.random() < 0.8]
        if rng.random() < 0.08:
            scols.append(rng.choice(UNKNOWN))
        rng.shuffle(scols)
        obj = rng.random() < 0.3
        vals = [[rng.choice([True, True, False, None] if obj else [True, True, False]) for _ in scols] for _ in idx]
        case["extra"]["frame"] = {"dates": idx, "cols": scols, "vals": vals, "object": obj}
        p["by_name"] = rng.random() < 0.6
        case["prior_selected"] = gen_selection(rng, ucols)
    elif kind == "rand":
        r = rng.random()
        p["n"] = None if r < 0.2 else (rng.choice([-1, -3]) if r < 0.24 else rng.choice([0, 1, 1, 2, 2, 3, 5, 9]))
        case["prior_selected"] = gen_selection(rng, ucols)
    elif kind == "regex":
        p["regex"] = rng.choice(REGEXES)
        case["prior_selected"] = gen_selection(rng, ucols, allow_missing=rng.random() < 0.2)
    elif kind == "active":
        for k in ("rolled", "closed"):
            p[k] = None if rng.random() < 0.35 else [c for c in list(ucols) + UNKNOWN if rng.random() < 0.3]
        case["prior_selected"] = gen_selection(rng, ucols, allow_missing=rng.random() < 0.2)
    elif kind == "types":
        kids = []
        for c in cols:
            if rng.random() < 0.8:
                kids.append([c, rng.choice(CHILD_TYPES[:5])])
        if rng.random() < 0.4:
            kids.insert(rng.randint(0, len(kids)), ["sub1", rng.choice(["Strategy", "Strategy", "FixedIncomeStrategy"])])
        if rng.random() < 0.15:
            kids.insert(rng.randint(0, len(kids)), ["sub2", "Strategy"])
        p["kids"] = kids
        # a child given as a string: it becomes a node only when it is first traded - here AFTER the same algo instance has
        # already been called once on the target
        rest = [c for c in cols if c not in [k_[0] for k_ in kids]]
        p["late"] = rng.choice(rest) if (rest and rng.random() < 0.5) else None
        p["fi_parent"] = any(t == "FixedIncomeStrategy" for _, t in kids) or rng.random() < 0.2
        r = rng.random()
        p["incl"] = None if r < 0.25 else [t for t in TYPES if rng.random() < 0.25]
        p["excl"] = None if rng.random() < 0.5 else [t for t in TYPES[1:] if rng.random() < 0.2]
        case["prior_selected"] = gen_selection(rng, [k for k, _ in kids])
    elif kind == "resolve":
        idx = gen_frame_index(rng, dates, now) if rng.random() < 0.15 else list(dates)
        ocols = [a for a in ALIASES if rng.random() < 0.7]
        targets = list(ucols) or ["aa"]
        vals = []
        for _ in idx:
            row = []
            for _a in ocols:
                r = rng.random()
                row.append(None if r < 0.04 else (rng.choice(UNKNOWN) if r < 0.08 else rng.choice(targets)))
            vals.append(row)
        case["extra"]["frame"] = {"dates": idx, "cols": ocols, "vals": vals}
        case["prior_selected"] = gen_selection(rng, ucols, pool_extra=ALIASES, allow_missing=rng.random() < 0.1)
    return case


# ------------------------------------------------------------------ real execution
def mk_frame(fr, dtype=None):
    vals = [[(np.nan if x is None else x) for x in row] for row in fr["vals"]]
    df = pd.DataFrame(vals, index=pd.DatetimeIndex(fr["dates"]), columns=fr["cols"], dtype=dtype)
    return df


def data_frame(case):
    return mk_frame({"dates": case["dates"], "cols": case["cols"], "vals": case["vals"]}, dtype=float)


def extra_frame(case):
    fr = case["extra"].get("frame")
    if fr is None:
        return None
    k = case["kind"]
    if k == "setstat":
        return mk_frame(fr, dtype=float) if fr["cols"] else pd.DataFrame(index=pd.DatetimeIndex(fr["dates"]))
    if k == "where":
        if fr.get("object"):
            return mk_frame(fr, dtype=object)
        return pd.DataFrame([[bool(x) for x in row] for row in fr["vals"]], index=pd.DatetimeIndex(fr["dates"]), columns=fr["cols"], dtype=bool)
    return mk_frame(fr, dtype=object)


def build_algo(bt, case, frame):
    A = bt.algos
    k = case["kind"]
    p = case["p"]
    fl = {"include_no_data": p["nd"], "include_negative": p["neg"]}
    if k == "all":
        return A.SelectAll(**fl)
    if k == "these":
        return A.SelectThese(list(p["tickers"]), **fl)
    if k == "hasdata":
        return A.SelectHasData(lookback=offset(p["lookback"]), min_count=p["min_count"], **fl)
    if k == "n":
        return A.SelectN(p["n"], sort_descending=p["desc"], all_or_none=p["aon"], filter_selected=p["fs"])
    if k == "tr":
        return A.StatTotalReturn(lookback=offset(p["lookback"]), lag=offset(p["lag"]))
    if k == "mom":
        return A.SelectMomentum(p["n"], lookback=offset(p["lookback"]), lag=offset(p["lag"]), sort_descending=p["desc"], all_or_none=p["aon"])
    if k == "setstat":
        return A.SetStat("frame" if p["by_name"] else frame, lag=offset(p["lag"]))
    if k == "where":
        return A.SelectWhere("frame" if p["by_name"] else frame, **fl)
    if k == "rand":
        return A.SelectRandomly(n=p["n"], **fl)
    if k == "regex":
        return A.SelectRegex(p["regex"])
    if k == "active":
        return A.SelectActive()
    if k == "types":
        kw = {}
        if p["incl"] is not None:
            kw["include_types"] = tuple(getattr(bt.core, t) for t in p["incl"])
        if p["excl"] is not None:
            kw["exclude_types"] = tuple(getattr(bt.core, t) for t in p["excl"])
        return A.SelectTypes(**kw)
    if k == "resolve":
        return A.ResolveOnTheRun("frame", **fl)
    raise ValueError(k)


class Spy:
    """records the index of the frame the algo hands to DataFrame.count / calc_total_return"""

    def __init__(self):
        self.count_idx = None
        self.tr_idx = None

    def __enter__(self):
        spy = self
        self.o_count = pd.DataFrame.count
        self.o_tr = pd.DataFrame.calc_total_return

        def count(df, *a, **k):
            if spy.count_idx is None:
                spy.count_idx = [str(x.date()) for x in df.index]
            return spy.o_count(df, *a, **k)

        def ctr(df, *a, **k):
            if spy.tr_idx is None:
                spy.tr_idx = [str(x.date()) for x in df.index]
            return spy.o_tr(df, *a, **k)

        pd.DataFrame.count = count
        pd.DataFrame.calc_total_return = ctr
        return self

    def __exit__(self, *a):
        pd.DataFrame.count = self.o_count
        pd.DataFrame.calc_total_return = self.o_tr


def read_temp(temp):
    """JSON-able view of the temp entries the property is about"""
    out = {"has_selected": "selected" in temp, "has_stat": "stat" in temp, "selected": None, "stat": None, "selected_type": None}
    if "selected" in temp:
        s = temp["selected"]
        out["selected_type"] = type(s).__name__
        try:
            out["selected"] = [None if isnan(x) else (x if isinstance(x, str) else str(x)) for x in list(s)]
        except Exception:
            out["selected"] = None
            out["selected_unreadable"] = True
    if "stat" in temp and not isinstance(temp["stat"], pd.Series):
        out["stat"] = {"keys": None, "vals": None, "name": None, "unreadable": type(temp["stat"]).__name__}
    elif "stat" in temp:
        st = temp["stat"]
        out["stat"] = {"keys": [str(k) for k in st.index], "vals": [cell(x) for x in st.values],
                       "name": None if st.name is None else str(pd.Timestamp(st.name).date())}
    return out


def prior_temp(case):
    temp = {}
    ps = case["prior_selected"]
    if ps is not None:
        temp["selected"] = pd.Index(ps["list"], dtype=object) if ps["index"] else list(ps["list"])
    st = case["prior_stat"]
    if st is not None:
        temp["stat"] = pd.Series([np.nan if v is None else v for v in st["vals"]], index=pd.Index(st["keys"], dtype=object), dtype=float)
    if case["noise"]:
        temp["weights"] = {"aa": 0.5}
        temp["cash"] = 0.1
    return temp


def make_child(bt, name, tname, cols):
    C = bt.core
    if tname in ("Strategy", "FixedIncomeStrategy"):
        return getattr(C, tname)(name, [], [cols[0]] if cols else None)
    return getattr(C, tname)(name)


def execute(bt, case):
    """runs the case on the real code; returns a JSON-able result"""
    data = data_frame(case)
    frame = extra_frame(case)
    p = case["p"]
    res = {"exc": None, "stage": None}
    try:
        algo = build_algo(bt, case, frame)
    except Exception as e:
        res.update({"exc": type(e).__name__, "stage": "init", "msg": str(e)[:120], "ucols": list(case["cols"]) if case["children"] is None else None})
        if res["ucols"] is None:
            res["ucols"] = [c for c in case["cols"] if c in case["children"]]
        return res
    kw = {}
    if frame is not None:
        kw["frame"] = frame
    if case["kind"] == "types":
        try:
            kids = [make_child(bt, n, t, case["cols"]) for n, t in p["kids"]]
        except Exception as e:
            return {"skip": "children:" + type(e).__name__}
        if any(t.startswith("CouponPaying") for _, t in p["kids"]):
            kw["coupons"] = pd.DataFrame(0.0, index=data.index, columns=[n for n, t in p["kids"] if t.startswith("CouponPaying")])
        if p.get("late"):
            kids = kids + [p["late"]]
        s = (bt.core.FixedIncomeStrategy if p["fi_parent"] else bt.Strategy)("s", [], kids)
    else:
        s = bt.Strategy("s", [], None if case["children"] is None else list(case["children"]))
    try:
        s.setup(data, **kw)
        s.update(data.index[case["now"]])
    except Exception as e:
        return {"skip": "setup:" + type(e).__name__}
    if case["kind"] == "active":
        for k in ("rolled", "closed"):
            if p[k] is not None:
                s.perm[k] = set(p[k])
    uni = s.universe
    res["ucols"] = [str(c) for c in uni.columns]
    res["universe_ok"] = bool(len(uni) == case["now"] + 1)
    if case["kind"] == "types" and p.get("late"):
        try:
            s.temp = {}
            algo(s)                       # an earlier call of the same instance, before the late child exists
            s.adjust(1000.0)
            s.transact(1.0, p["late"])    # ... now it does
            s.update(s.now)
            res["late_created"] = p["late"] in s.children
        except Exception as e:
            return {"skip": "late-child:" + type(e).__name__}
    if case["kind"] == "types":
        res["kids"] = [[n, type(c).__name__] for n, c in s.children.items()]
        res["utable"] = [[cell(x) for x in row] for row in s._universe.values.tolist()] if hasattr(s, "_universe") else None
    s.temp = prior_temp(case)
    pyrandom.seed(case["rseed"])
    with Spy() as spy:
        try:
            r = algo(s)
            res["ret"] = bool(r)
        except Exception as e:
            res.update({"exc": type(e).__name__, "stage": "call", "msg": str(e)[:120]})
    res["count_idx"] = spy.count_idx
    res["tr_idx"] = spy.tr_idx
    res["temp"] = read_temp(s.temp)
    if case["kind"] == "hasdata" and hasattr(algo, "min_count"):
        res["min_count"] = float(algo.min_count)
    return res


# ------------------------------------------------------------------ window resolution (Python side, checked against the spy)
def ts(d):
    return pd.Timestamp(d)


def resolve_windows(case):
    """row positions the model needs; pure Timestamp arithmetic and comparisons"""
    k = case["kind"]
    p = case["p"]
    dates = [ts(d) for d in case["dates"]]
    now = case["now"]
    vis = dates[:now + 1]
    out = {}
    if k == "hasdata":
        t = dates[now] - offset(p["lookback"])
        out["lo"] = sum(1 for d in vis if d < t)
    if k in ("tr", "mom"):
        t0 = dates[now] - offset(p["lag"])
        if dates[0] > t0:
            out["win"] = None
        else:
            a = t0 - offset(p["lookback"])
            out["win"] = (sum(1 for d in vis if d < a), sum(1 for d in vis if d <= t0))
    if k == "setstat":
        t0 = dates[now] - offset(p["lag"])
        fd = [ts(d) for d in case["extra"]["frame"]["dates"]]
        out["t0row"] = next((i for i, d in enumerate(fd) if d == t0), None)
    if k in ("where", "resolve"):
        fd = case["extra"]["frame"]["dates"]
        out["row"] = next((i for i, d in enumerate(fd) if d == case["dates"][now]), None)
    return out


# ------------------------------------------------------------------ Lean request
class Names:
    def __init__(self):
        self.ids = {}
        self.names = []

    def id(self, n):
        if n not in self.ids:
            self.ids[n] = len(self.names)
            self.names.append(n)
        return self.ids[n]

    def tok(self, l):
        return tL(list(l), lambda x: str(self.id(x)))


def tN(x):
    return str(int(x))


def table_tok(nm, ucols, case, utable=None):
    idx = [case["cols"].index(c) for c in ucols] if utable is None else None
    rows = utable if utable is not None else [[row[i] for i in idx] for row in case["vals"]]
    return nm.tok(ucols) + " " + tL(rows, lambda r: tL(r, tO))


def prior_tok(nm, case):
    ps = case["prior_selected"]
    return "N" if ps is None else nm.tok(ps["list"])


def stat_tok(nm, st):
    if st is None:
        return "N"
    return tL(list(zip(st["keys"], st["vals"])), lambda kv: "%d %s" % (nm.id(kv[0]), tO(kv[1])))


def nspec_tok(n):
    if isinstance(n, int) and not isinstance(n, bool) and n >= 0:
        return "I %d" % n
    return "R " + tF(float(n))


def request(case, res, win):
    """the `select` line for the model; labels are numbered per request"""
    nm = Names()
    k = case["kind"]
    p = case["p"]
    ucols = res["ucols"]
    now = case["now"]
    if k == "types":
        kids = res.get("kids") or []
        return ("select types " + tL(kids, lambda kt: "%d %s" % (nm.id(kt[0]), kt[1])) + " " +
                tL(["Node"] if p["incl"] is None else p["incl"], str) + " " + tL(p["excl"] or [], str) + " " + prior_tok(nm, case)), nm
    if k == "regex":
        rx = re.compile(p["regex"])
        pool = set((case["prior_selected"] or {"list": []})["list"]) | set(ucols)
        hits = sorted(x for x in pool if rx.search(x))
        return "select regex %s %s" % (nm.tok(hits), prior_tok(nm, case)), nm
    if k == "active":
        return "select active %s %s %s" % (nm.tok(sorted(p["rolled"] or [])), nm.tok(sorted(p["closed"] or [])), prior_tok(nm, case)), nm
    if k == "n":
        out = res["temp"]["selected"] if res["exc"] is None else None
        return "select n %s %s %s %s %s %s %s" % (stat_tok(nm, case["prior_stat"]), prior_tok(nm, case), nspec_tok(p["n"]),
                                                 tB(not p["desc"]), tB(p["aon"]), tB(p["fs"]),
                                                 "N" if out is None else nm.tok(out)), nm
    if k == "setstat":
        fr = case["extra"]["frame"]
        return "select setstat %s %s %s" % (nm.tok(fr["cols"]), tL(fr["vals"], lambda r: tL(r, tO)), tO(win["t0row"], tN)), nm
    T = table_tok(nm, ucols, case)
    fl = "%s %s" % (tB(p["nd"]), tB(p["neg"]))
    if k == "all":
        return "select all %s %d %s" % (T, now, fl), nm
    if k == "these":
        return "select these %s %d %s %s" % (T, now, nm.tok(p["tickers"]), fl), nm
    if k == "hasdata":
        mc = res.get("min_count")
        mc = 0 if mc is None else max(0, int(math.ceil(mc)))
        return "select hasdata %s %d %d %d %s %s" % (T, now, win["lo"], mc, fl, prior_tok(nm, case)), nm
    if k in ("tr", "mom"):
        w = "N" if win["win"] is None else "%d %d" % win["win"]
        if k == "tr":
            return "select tr %s %d %s %s" % (T, now, w, prior_tok(nm, case)), nm
        out = res["temp"]["selected"] if (res["exc"] is None and res.get("ret")) else None
        return "select mom %s %d %s %s %s %s %s %s" % (T, now, w, prior_tok(nm, case), nspec_tok(p["n"]), tB(not p["desc"]), tB(p["aon"]),
                                                    "N" if out is None else nm.tok(out)), nm
    if k == "where":
        fr = case["extra"]["frame"]
        row = None if win["row"] is None else fr["vals"][win["row"]]
        return "select where %s %d %s %s %s %s" % (T, now, nm.tok(fr["cols"]), "N" if row is None else tL(row, lambda b: tO(b, tB)), fl,
                                                  prior_tok(nm, case)), nm
    if k == "rand":
        out = (res["temp"]["selected"] or []) if res["exc"] is None else []
        ps = case["prior_selected"]
        return "select rand %s %d %s %s %s %s %s" % (T, now, tO(p["n"], tN), fl, prior_tok(nm, case), tB(bool(ps and ps["index"])), nm.tok(out)), nm
    if k == "resolve":
        fr = case["extra"]["frame"]
        row = None if win["row"] is None else fr["vals"][win["row"]]
        return "select resolve %s %d %s %s %s %s" % (T, now, nm.tok(fr["cols"]),
                                                    "N" if row is None else tL(row, lambda x: tO(x, lambda y: str(nm.id(y)))), fl,
                                                    prior_tok(nm, case)), nm
    raise ValueError(k)


class Ans:
    def __init__(self, line, nm):
        self.toks = line.split()
        self.i = 1
        self.nm = nm
        self.status = self.toks[0] if self.toks else "bad"
        self.err = self.toks[1] if self.status == "err" and len(self.toks) > 1 else None

    def next(self):
        t = self.toks[self.i]
        self.i += 1
        return t

    def names(self, opt=False):
        n = int(self.next())
        out = []
        for _ in range(n):
            t = self.next()
            out.append(None if (opt and t == "N") else self.nm.names[int(t)])
        return out

    def stat(self):
        n = int(self.next())
        keys, vals = [], []
        for _ in range(n):
            keys.append(self.nm.names[int(self.next())])
            t = self.next()
            if t == "N":
                vals.append(None)
            else:
                x = b2f(int(t))
                vals.append(None if x != x else x)
        return keys, vals

    def bool(self):
        return self.next() == "1"


# ------------------------------------------------------------------ correspondence
def stat_equal(rs, keys, vals):
    if rs is None:
        return False
    if rs["keys"] != keys:
        return False
    return all(close(a, b) for a, b in zip(rs["vals"], vals))


def has_ties(case):
    st = case["prior_stat"]
    if st is None:
        return False
    v = [x for x in st["vals"] if x is not None]
    return len(set(v)) != len(v)


def compare(case, res, line, nm, win):
    """list of (protocol field, detail) where model and implementation differ"""
    k = case["kind"]
    a = Ans(line, nm)
    out = []
    if a.status == "bad":
        return [("protocol", line[:200])]
    # window resolution against what pandas sliced
    if k == "hasdata" and res.get("count_idx") is not None:
        exp = case["dates"][win["lo"]:case["now"] + 1]
        if res["count_idx"] != exp:
            out.append(("window", {"algo_sliced": res["count_idx"], "resolved": exp}))
    if k in ("tr", "mom") and res.get("tr_idx") is not None:
        exp = [] if win["win"] is None else case["dates"][win["win"][0]:win["win"][1]]
        if res["tr_idx"] != exp:
            out.append(("window", {"algo_sliced": res["tr_idx"], "resolved": exp}))
    if k == "setstat" and res["exc"] is None and res.get("ret") and win["t0row"] is not None:
        if res["temp"]["stat"] is None or res["temp"]["stat"]["name"] != case["extra"]["frame"]["dates"][win["t0row"]]:
            out.append(("window", {"stat_name": res["temp"]["stat"] and res["temp"]["stat"]["name"], "resolved_row": win["t0row"]}))
    # outcome class
    if res["exc"] is not None:
        if a.status != "err" or a.err != res["exc"]:
            out.append(("outcome", {"real": "raises " + res["exc"] + ": " + res.get("msg", ""), "model": line[:120]}))
        return out
    if a.status == "err":
        out.append(("outcome", {"real": "returns %s selected=%s" % (res.get("ret"), res["temp"]["selected"]), "model": line[:120]}))
        return out
    T = res["temp"]
    sel = T["selected"]
    prior = None if case["prior_selected"] is None else case["prior_selected"]["list"]

    def cmp_list(m, real=sel, what="selected"):
        if real != m:
            out.append((what, {"real": real, "model": m}))

    if k in ("all", "these", "hasdata", "regex", "active", "types"):
        cmp_list(a.names())
        if res.get("ret") is not True:
            out.append(("return", {"real": res.get("ret"), "model": True}))
    elif k == "resolve":
        cmp_list(a.names(opt=True))
    elif k == "where":
        t = a.toks[1]
        if t == "N":
            a.i += 1
            m = None
        else:
            m = a.names()
        cmp_list(m)
    elif k == "n":
        m = a.names()
        rel = a.bool()
        if not rel:
            out.append(("selected-relation", {"real": sel, "model_stable_sort": m}))
        elif not has_ties(case):
            cmp_list(m)
    elif k == "rand":
        pool = a.names()
        rel = a.bool()
        if not rel:
            out.append(("selected-relation", {"real": sel, "pool": pool, "n": case["p"]["n"]}))
    elif k == "setstat":
        t = a.next()
        if t == "F":
            if res.get("ret") is not False:
                out.append(("return", {"real": res.get("ret"), "model": False}))
            if (T["stat"] is None) != (case["prior_stat"] is None):
                out.append(("stat", {"real": T["stat"], "model": "untouched"}))
        else:
            keys, vals = a.stat()
            if res.get("ret") is not True:
                out.append(("return", {"real": res.get("ret"), "model": True}))
            if not stat_equal(T["stat"], keys, vals):
                out.append(("stat", {"real": T["stat"], "model": [keys, vals]}))
    elif k in ("tr", "mom"):
        t = a.next()
        if t == "F":
            if res.get("ret") is not False:
                out.append(("return", {"real": res.get("ret"), "model": False}))
            if T["stat"] is not None or sel != prior:
                out.append(("temp-untouched", {"real": [T["stat"], sel], "model": "untouched"}))
        else:
            keys, vals = a.stat()
            if res.get("ret") is not True:
                out.append(("return", {"real": res.get("ret"), "model": True}))
            if not stat_equal(T["stat"], keys, vals):
                out.append(("stat", {"real": T["stat"], "model": [keys, vals]}))
            if k == "mom":
                m = a.names()
                rel = a.bool()
                v = [x for x in vals if x is not None]
                if not rel:
                    out.append(("selected-relation", {"real": sel, "model_stable_sort": m}))
                elif len(set(v)) == len(v):
                    cmp_list(m)
            elif sel != prior:
                out.append(("selected", {"real": sel, "model": prior}))
    return out


# ------------------------------------------------------------------ monitor (independent of the model)
def monitor(case, res):
    """the property evaluated on the real result: list of (key, message)"""
    k = case["kind"]
    p = case["p"]
    algo = ALGO_NAME[k]
    if res["exc"] is not None:
        return []
    out = []
    now = case["now"]
    cols = case["cols"]
    ucols = res["ucols"]
    if k == "types" and res.get("utable") is not None:
        rown = dict(zip(ucols, res["utable"][now]))
    else:
        rown = {c: case["vals"][now][cols.index(c)] for c in ucols if c in cols}
    T = res["temp"]
    sel = T["selected"]
    prior = None if case["prior_selected"] is None else list(case["prior_selected"]["list"])
    nd, neg = p.get("nd", False), p.get("neg", False)
    if sel is None and T["has_selected"]:
        return [("C14/selected-not-a-list:%s" % algo, "%s left temp['selected'] of type %s" % (algo, T["selected_type"]))]
    if prior is None and k in ("regex", "active", "resolve", "tr", "mom"):
        return out  # the algo requires a prior selection; what it does without one is not the property's business
    if k == "n" and case["prior_stat"] is None:
        return out

    def has(c):
        return rown.get(c) is not None

    def nonpos(c):
        return rown.get(c) is not None and rown[c] <= 0

    def doc_filter(base):
        return [c for c in base if (nd or has(c)) and (neg or not nonpos(c))]

    def judge_flagged(base, got, part="", source=True):
        """got must be the documented filter of base (as multisets), and — for selectors that introduce names
        (source) — inside the universe; a filter of a prior selection is only required not to add anything"""
        outside = [c for c in got if c not in ucols]
        if outside and source:
            out.append(("C14/outside-universe:%s%s" % (algo, ":include_no_data" if nd else ""),
                        "%s%s(include_no_data=%s) selected %r which is not in the universe %r" % (algo, part, nd, outside, ucols)))
            got = [c for c in got if c in ucols]
            base = [c for c in base if c in ucols]
        exp = doc_filter(base)
        if Counter(got) == Counter(exp):
            return
        if nd and not neg and Counter(got) == Counter(base):
            bad = [c for c in got if nonpos(c)]
            out.append(("C14/include_no_data-admits-nonpositive:%s" % algo,
                        "%s%s(include_no_data=True, include_negative=False) selected %r whose current price is zero or negative (%r)" % (
                            algo, part, bad, [rown[c] for c in bad])))
            return
        if not nd and not neg:
            bad = [c for c in got if not has(c) or nonpos(c)]
            if bad:
                out.append(("C14/untradable-selected:%s" % algo, "%s%s with default flags selected %r: current prices %r" % (
                    algo, part, bad, [rown.get(c) for c in bad])))
                return
        out.append(("C14/selected-set:%s" % algo, "%s%s(include_no_data=%s, include_negative=%s) left %r, documented set is %r (row %r)" % (
            algo, part, nd, neg, got, exp, rown)))

    if k == "all":
        judge_flagged(ucols, sel)
    elif k == "these":
        judge_flagged(p["tickers"], sel)
    elif k == "hasdata":
        base = prior if prior is not None else ucols
        dates = [ts(d) for d in case["dates"]]
        start = dates[now] - offset(p["lookback"])
        mc = res.get("min_count")
        ok = []
        for c in base:
            j = cols.index(c)
            cnt = sum(1 for d, row in zip(dates, case["vals"]) if start <= d <= dates[now] and row[j] is not None)
            if cnt >= mc:
                ok.append(c)
        judge_flagged(ok, sel)
    elif k == "where":
        fr = case["extra"]["frame"]
        if case["dates"][now] not in fr["dates"]:
            if sel != prior:
                out.append(("C14/selected-set:SelectWhere:date-absent", "signal has no row for %s but selected changed %r -> %r" % (case["dates"][now], prior, sel)))
        else:
            row = fr["vals"][fr["dates"].index(case["dates"][now])]
            judge_flagged([c for c, b in zip(fr["cols"], row) if b is True], sel)
    elif k == "rand":
        base = prior if prior is not None else ucols
        pool = doc_filter(base)
        cp = Counter(pool)
        cg = Counter(sel)
        if p["n"] is None:
            judge_flagged(base, sel, source=prior is None)
        else:
            extra = [c for c in cg if cg[c] > cp.get(c, 0)]
            if extra:
                if nd and not neg and all(nonpos(c) and cg[c] <= Counter(base).get(c, 0) for c in extra):
                    out.append(("C14/include_no_data-admits-nonpositive:%s" % algo,
                                "SelectRandomly(include_no_data=True, include_negative=False) drew %r whose current price is zero or negative" % extra))
                elif not nd and not neg and all(c in base for c in extra):
                    out.append(("C14/untradable-selected:%s" % algo, "SelectRandomly drew %r: current prices %r" % (extra, [rown.get(c) for c in extra])))
                else:
                    out.append(("C14/random-not-subset", "SelectRandomly left %r, not drawn from the filtered selection %r" % (sel, pool)))
            else:
                # size: min(n, len) of the list the code documents; the code's own pool may be larger only through the known flag coupling
                if len(sel) != min(p["n"], len(pool)) and not (nd and not neg and len(sel) == min(p["n"], len(base))):
                    out.append(("C14/random-size", "SelectRandomly(n=%r) left %d of %d candidates: %r" % (p["n"], len(sel), len(pool), sel)))
    elif k == "resolve":
        fr = case["extra"]["frame"]
        row = dict(zip(fr["cols"], fr["vals"][fr["dates"].index(case["dates"][now])]))
        aliases = [s for s in prior if s in row]
        rest = [s for s in prior if s not in row]
        got = list(sel)
        for r_ in rest:
            if r_ in got:
                got.remove(r_)
            else:
                out.append(("C14/selected-set:ResolveOnTheRun:non-alias-dropped", "non-alias %r of %r missing from %r" % (r_, prior, sel)))
                return out
        judge_flagged([row[a_] for a_ in aliases], got, part=" (resolved part)")
    elif k == "regex":
        rx = re.compile(p["regex"])
        exp = [s for s in prior if rx.search(s)]
        if sel != exp:
            out.append(("C14/selected-set:SelectRegex", "SelectRegex(%r) on %r left %r, expected %r" % (p["regex"], prior, sel, exp)))
    elif k == "active":
        gone = set(p["rolled"] or []) | set(p["closed"] or [])
        exp = [s for s in prior if s not in gone]
        if sel != exp:
            out.append(("C14/selected-set:SelectActive", "SelectActive on %r with closed/rolled %r left %r" % (prior, sorted(gone), sel)))
    elif k == "types":
        parents = {"Node": None, "StrategyBase": "Node", "SecurityBase": "Node", "Strategy": "StrategyBase", "Security": "SecurityBase",
                   "FixedIncomeStrategy": "Strategy", "FixedIncomeSecurity": "SecurityBase", "CouponPayingSecurity": "FixedIncomeSecurity",
                   "HedgeSecurity": "SecurityBase", "CouponPayingHedgeSecurity": "CouponPayingSecurity"}

        def isa(t, ts_):
            while t is not None:
                if t in ts_:
                    return True
                t = parents[t]
            return False
        incl = ["Node"] if p["incl"] is None else p["incl"]
        excl = p["excl"] or []
        exp = [n for n, t in res["kids"] if isa(t, incl) and not isa(t, excl)]
        if prior is not None:
            exp = [n for n in exp if n in prior]
        if Counter(sel) != Counter(exp):
            out.append(("C14/selected-set:SelectTypes", "SelectTypes(include=%r, exclude=%r) on children %r prior %r left %r, expected %r" % (
                incl, excl, res["kids"], prior, sel, exp)))
    elif k == "setstat":
        fr = case["extra"]["frame"]
        t0 = ts(case["dates"][now]) - offset(p["lag"])
        rows = [r for d, r in zip(fr["dates"], fr["vals"]) if ts(d) == t0]
        if not rows:
            if res["ret"] is not False or (T["stat"] is None) != (case["prior_stat"] is None):
                out.append(("C14/setstat-row:absent", "no stat row at %s but SetStat returned %r / stat=%r" % (t0.date(), res["ret"], T["stat"])))
        else:
            st = T["stat"]
            if res["ret"] is not True or st is None or st["keys"] != fr["cols"] or not all(close(a, b) for a, b in zip(st["vals"], rows[0])):
                out.append(("C14/setstat-row", "SetStat(lag=%r) at %s: stat %r, documented row (%s) %r" % (p["lag"], case["dates"][now], st, t0.date(), rows[0])))
    if k in ("tr", "mom"):
        dates = [ts(d) for d in case["dates"]]
        t0 = dates[now] - offset(p["lag"])
        a0 = t0 - offset(p["lookback"])
        if dates[0] > t0:
            if res["ret"] is not False or T["stat"] is not None or sel != prior:
                out.append(("C14/total-return-window:data-starts-after-t0", "%s at %s lag %r: data starts %s > t0 but returned %r, stat %r" % (
                    algo, case["dates"][now], p["lag"], case["dates"][0], res["ret"], T["stat"])))
            return out
        win = [row for d, row in zip(dates[:now + 1], case["vals"]) if a0 <= d <= t0]
        st = T["stat"]
        if res["ret"] is not True or st is None or not win:
            out.append(("C14/total-return-window", "%s at %s: window [%s, %s] has %d rows but returned %r, stat %r" % (
                algo, case["dates"][now], a0.date(), t0.date(), len(win), res["ret"], st)))
            return out
        exp = []
        for c in prior:
            j = cols.index(c)
            f, l = win[0][j], win[-1][j]
            if f is None or l is None:
                exp.append(None)
            elif f == 0:
                exp.append(None if l == 0 else math.copysign(float("inf"), l) * (math.copysign(1.0, f)))
            else:
                exp.append(l / f - 1)
        if st["keys"] != prior:
            out.append(("C14/total-return-keys", "%s: stat index %r, selected %r" % (algo, st["keys"], prior)))
            return out
        bad = [(c, a, b) for c, a, b in zip(prior, st["vals"], exp) if not close(a, b)]
        if bad:
            out.append(("C14/total-return-value", "%s(lookback=%r, lag=%r) at %s: (ticker, stat, last/first-1 over [%s, %s]) = %r" % (
                algo, p["lookback"], p["lag"], case["dates"][now], a0.date(), t0.date(), bad[:3])))
            return out
        if k == "mom":
            out.extend(monitor_rank(algo, dict(zip(prior, exp)), prior, None, False, p, sel))
    if k == "n":
        st = case["prior_stat"]
        out.extend(monitor_rank(algo, dict(zip(st["keys"], st["vals"])), st["keys"], prior, p["fs"], p, sel))
    return out


def monitor_rank(algo, stat, order, prior, fs, p, sel):
    """ranked selection: the n best (worst) of the eligible statistics"""
    out = []
    elig = [c for c in order if stat[c] is not None]
    if fs and prior is not None:
        elig = [c for c in elig if c in prior]
    n = p["n"]
    k = n if n >= 1 else int(n * len(elig))
    desc = p["desc"]
    tag = ":%s" % algo
    if len(set(sel)) != len(sel) and len(set(order)) == len(order):
        return [("C14/selectN-duplicate" + tag, "%s left duplicates %r" % (algo, sel))]
    if any(c not in elig for c in sel):
        why = "filter_selected" if (fs and prior is not None and any(c not in prior for c in sel)) else "not-eligible"
        return [("C14/selectN-%s%s" % (why, tag), "%s left %r; eligible (non-missing%s) are %r" % (algo, sel, ", in prior selection" if fs else "", elig))]
    if p["aon"] and len(elig) < k:
        if sel:
            out.append(("C14/selectN-all_or_none" + tag, "%s(n=%r, all_or_none) has only %d eligible but left %r" % (algo, n, len(elig), sel)))
        return out
    if len(sel) != min(k, len(elig)):
        return [("C14/selectN-size" + tag, "%s(n=%r) on %d eligible left %d: %r" % (algo, n, len(elig), len(sel), sel))]
    v = [stat[c] for c in sel]
    restv = [stat[c] for c in elig if c not in sel]
    if desc:
        sorted_ok = all(v[i] >= v[i + 1] for i in range(len(v) - 1))
        dom = (not v or not restv) or min(v) >= max(restv)
    else:
        sorted_ok = all(v[i] <= v[i + 1] for i in range(len(v) - 1))
        dom = (not v or not restv) or max(v) <= min(restv)
    if not dom:
        out.append(("C14/selectN-rank" + tag, "%s(n=%r, descending=%r) left %r (stats %r) but unselected stats are %r" % (algo, n, desc, sel, v, restv)))
    elif not sorted_ok:
        out.append(("C14/selectN-order" + tag, "%s(descending=%r) left %r in order of stats %r" % (algo, desc, sel, v)))
    return out


# ------------------------------------------------------------------ classes / counters
def classify(ctx, case, res):
    k = case["kind"]
    p = case["p"]
    now = case["now"]
    row = case["vals"][now]
    rowf = ("N" if any(x is None for x in row) else "") + ("Z" if any(x == 0 for x in row if x is not None) else "") + \
           ("M" if any(x < 0 for x in row if x is not None) else "") + ("P" if any(x is not None and x > 0 for x in row) else "")
    outcome = res["exc"] or ("False" if res.get("ret") is False else "ok")
    ps = case["prior_selected"]
    pshape = "absent" if ps is None else (ps["shape"] + ("/Index" if ps["index"] else ""))
    par = []
    if "nd" in p and k in ("all", "these", "hasdata", "where", "rand", "resolve"):
        par.append("nd%d neg%d" % (p["nd"], p["neg"]))
    if "n" in p:
        n = p["n"]
        par.append("n=None" if n is None else ("n<0" if n < 0 else ("n-frac" if (isinstance(n, float) and n < 1) else ("n-float>=1" if isinstance(n, float) else "n-int"))))
    for f in ("desc", "aon", "fs"):
        if f in p:
            par.append("%s%d" % (f, p[f]))
    for f in ("lookback", "lag"):
        if f in p:
            (u, v), = p[f].items()
            par.append("%s:%s%s" % (f, u, "0" if v == 0 else "+"))
    if k == "hasdata":
        par.append("mc=None" if p["min_count"] is None else "mc")
    if k == "n" and has_ties(case):
        par.append("ties")
    ctx.count("algo:" + ALGO_NAME[k])
    ctx.count("outcome:%s:%s" % (ALGO_NAME[k], outcome))
    ctx.count("row-content:" + (rowf or "empty"))
    ctx.count("prior-selected:" + pshape)
    ctx.count("calendar:" + case["gen"]["calendar"])
    ctx.count("grid:" + case["gen"]["grid"])
    ctx.count("source:" + case.get("source", "direct"))
    for f in case["gen"]["features"]:
        ctx.count("column-pattern:" + f)
    for x in par:
        ctx.count("param:%s:%s" % (ALGO_NAME[k], x))
    if case["children"] is not None:
        ctx.count("universe:children-filtered")
    ctx.classes.add((k, tuple(par), outcome, pshape, rowf))


# ------------------------------------------------------------------ whole-run stream (Backtest with tapped stacks)
def gen_pipeline(rng):
    """a selection stack as a list of algo descriptions built on one universe"""
    base = gen_case(rng, "all")
    ucols = base["cols"] if base["children"] is None else [c for c in base["cols"] if c in base["children"]]
    steps = []
    first = rng.choice(["all", "all", "these", "hasdata", "where"])
    seq = [first]
    r = rng.random()
    if r < 0.3:
        seq.append("mom")
    elif r < 0.5:
        seq += ["tr", "n"]
    elif r < 0.65:
        seq += ["setstat", "n"]
    elif r < 0.8:
        seq.append("rand")
    elif r < 0.9:
        seq += ["hasdata", "regex"]
    else:
        seq += ["regex", "active"]
    frames = {}
    for kind in seq:
        c = gen_case(rng, kind)
        p = c["p"]
        if kind == "these":
            t = gen_selection(rng, ucols, allow_missing=False)
            p["tickers"] = [x for x in t["list"] if x in ucols]
        if kind in ("setstat", "where"):
            fr = c["extra"]["frame"]
            idx = [d for d in base["dates"] if rng.random() < 0.85] or [base["dates"][0]]
            cols_ = [x for x in ucols if rng.random() < 0.9] or list(ucols)
            if kind == "setstat":
                vals = [[rng.choice([None, float(rng.randint(-3, 3)), rng.gauss(0, 1)]) for _ in cols_] for _ in idx]
                fr = {"dates": idx, "cols": cols_, "vals": vals}
            else:
                vals = [[rng.choice([True, True, False]) for _ in cols_] for _ in idx]
                fr = {"dates": idx, "cols": cols_, "vals": vals, "object": False}
            p["by_name"] = True
            p["frame_name"] = "frame%d" % len(frames)
            frames[p["frame_name"]] = fr
            c["extra"]["frame"] = fr
        steps.append({"kind": kind, "p": p, "extra": c["extra"]})
    base["steps"] = steps
    base["frames"] = frames
    return base


def run_pipeline(bt, pipe):
    """runs the Backtest; returns the list of (case, res) records, one per tapped algo call"""
    records = []
    data = data_frame(pipe)

    def frame_of(st):
        fr = st["extra"].get("frame")
        if fr is None:
            return None
        return extra_frame({"kind": st["kind"], "extra": st["extra"]})

    class Tap(bt.Algo):
        def __init__(self, st):
            super(Tap, self).__init__()
            self.st = st
            sub = {"kind": st["kind"], "p": st["p"], "extra": st["extra"]}
            p2 = dict(st["p"])
            self.inner = None
            case_like = {"kind": st["kind"], "p": p2}
            fr = frame_of(st)
            if st["kind"] in ("setstat", "where"):
                A = bt.algos
                if st["kind"] == "setstat":
                    self.inner = A.SetStat(p2["frame_name"], lag=offset(p2["lag"]))
                else:
                    self.inner = A.SelectWhere(p2["frame_name"], include_no_data=p2["nd"], include_negative=p2["neg"])
            else:
                self.inner = build_algo(bt, case_like, fr)

        def __call__(self, target):
            uni = target.universe
            ucols = [str(c) for c in uni.columns]
            full = target._universe if hasattr(target, "_universe") else uni
            dates = [str(pd.Timestamp(d).date()) for d in full.index]
            now = len(uni) - 1
            t = target.temp
            ps = None
            if "selected" in t:
                s_ = t["selected"]
                ps = {"list": [None if isnan(x) else x for x in list(s_)], "index": isinstance(s_, pd.Index), "shape": "pipeline"}
            pst = None
            if "stat" in t:
                pst = {"keys": [str(x) for x in t["stat"].index], "vals": [cell(x) for x in t["stat"].values], "mode": "pipeline"}
            case = {"dates": dates, "cols": ucols, "vals": [[cell(x) for x in row] for row in full.values.tolist()], "children": None,
                    "now": now, "kind": self.st["kind"], "gen": pipe["gen"], "rseed": pipe["rseed"] + now, "noise": False,
                    "prior_selected": ps, "prior_stat": pst, "extra": {}, "p": dict(self.st["p"]), "source": "backtest"}
            if self.st["extra"].get("frame") is not None:
                fr = target.get_data(self.st["p"]["frame_name"])
                case["extra"]["frame"] = {"dates": [str(pd.Timestamp(d).date()) for d in fr.index], "cols": [str(c) for c in fr.columns],
                                          "vals": [[cell(x) for x in row] for row in fr.values.tolist()],
                                          "object": bool(self.st["extra"]["frame"].get("object"))}
            if case["kind"] == "where":
                fr_ = case["extra"]["frame"]
                fr_["vals"] = [[None if x is None else bool(x == True) for x in row] for row in fr_["vals"]]  # noqa: E712
                fr_["object"] = True
            if case["kind"] == "active":
                for k_ in ("rolled", "closed"):
                    if case["p"][k_] is not None:
                        target.perm[k_] = set(case["p"][k_])
            res = {"exc": None, "stage": None, "ucols": ucols, "universe_ok": True}
            pyrandom.seed(case["rseed"])
            err = None
            with Spy() as spy:
                try:
                    r = self.inner(target)
                    res["ret"] = bool(r)
                except Exception as e:
                    res.update({"exc": type(e).__name__, "stage": "call", "msg": str(e)[:120]})
                    err = e
            res["count_idx"] = spy.count_idx
            res["tr_idx"] = spy.tr_idx
            res["temp"] = read_temp(target.temp)
            if case["kind"] == "hasdata":
                res["min_count"] = float(self.inner.min_count)
            records.append((case, res))
            if err is not None:
                raise err
            return r

    try:
        taps = [Tap(st) for st in pipe["steps"]]
    except Exception:
        return records, "init"
    s = bt.Strategy("s", taps, None if pipe["children"] is None else list(pipe["children"]))
    add = {k: extra_frame({"kind": "where" if fr.get("object") is not None else "setstat", "extra": {"frame": fr}}) for k, fr in pipe["frames"].items()}
    status = "ok"
    try:
        t = bt.Backtest(s, data, additional_data=add, progress_bar=False)
        t.run()
    except Exception as e:
        status = type(e).__name__
    return records, status


# ------------------------------------------------------------------ driving
def judge(ctx, pairs, corr_name):
    """pairs: [(case, res)]; model comparison + monitor"""
    reqs = []
    for case, res in pairs:
        win = resolve_windows(case)
        if res.get("stage") == "init":
            # construction refused the parameters (SelectN n<0): the model's keepN carries that error
            pass
        line, nm = request(case, res, win)
        reqs.append((case, res, win, line, nm))
    answers = leanrun.run_lines([r[3] for r in reqs])
    n_dis = 0
    for (case, res, win, line, nm), ans in zip(reqs, answers):
        ctx.evaluations += 1
        classify(ctx, case, res)
        try:
            diffs = compare(case, res, ans, nm, win)
        except Exception as e:
            diffs = [("compare-failed", {"error": repr(e)[:200], "model": ans[:120]})]
        for field, detail in diffs:
            n_dis += 1
            ctx.disagreement("select:%s:%s" % (ALGO_NAME[case["kind"]], field), detail, {"case": case})
        if not res.get("universe_ok", True):
            ctx.disagreement("select:universe-window", {"now": case["now"]}, {"case": case})
        try:
            found = monitor(case, res)
        except Exception as e:  # a result so malformed that the documented set cannot even be evaluated
            found = []
            ctx.count("monitor-could-not-evaluate:" + type(e).__name__)
            ctx.disagreement("select:%s:monitor-could-not-evaluate" % ALGO_NAME[case["kind"]], {"error": repr(e)[:200]}, {"case": case})
        for key, msg in found:
            ctx.violation(key, msg, {"case": case})
            ctx.count("monitor:" + key)
        if case["kind"] in ("hasdata",) and res.get("count_idx") is None and res["exc"] is None:
            ctx.count("window-unverified:hasdata")
        if case["kind"] in ("tr", "mom") and res.get("tr_idx") is None and res["exc"] is None and res.get("ret"):
            ctx.count("window-unverified:total-return")
        ctx.sample({"algo": ALGO_NAME[case["kind"]], "params": case["p"], "now": case["dates"][case["now"]], "row": dict(zip(case["cols"], case["vals"][case["now"]])),
                    "prior_selected": case["prior_selected"], "result": res.get("temp", {}).get("selected"), "model": ans[:100]})
    return len(reqs), n_dis


def corpus_cases():
    """hand-written witnesses of the known findings and of past corners"""
    base = {"dates": ["2020-01-01", "2020-01-02", "2020-01-03"], "cols": ["aa", "b1", "c"],
            "vals": [[1.0, 2.0, None], [2.0, 0.0, 3.0], [3.0, -1.0, None]], "children": None, "now": 1,
            "gen": {"calendar": "corpus", "grid": "int", "features": ["plain", "zero", "gaps"]}, "rseed": 1, "noise": False,
            "prior_selected": None, "prior_stat": None, "extra": {}, "source": "corpus"}
    out = []
    for kind, p in [("all", {"nd": True, "neg": False}), ("these", {"nd": True, "neg": False, "tickers": ["b1", "aa"], "tshape": "subset"}),
                    ("these", {"nd": True, "neg": True, "tickers": ["zz9", "aa"], "tshape": "unknown"}),
                    ("hasdata", {"nd": True, "neg": False, "lookback": {"days": 1}, "min_count": 1}),
                    ("rand", {"nd": True, "neg": False, "n": 3})]:
        c = json.loads(json.dumps(base))
        c["kind"] = kind
        c["p"] = p
        out.append(c)
    return out


def run_stream(ctx, bt, n_direct, n_pipes, corr_name, kinds=None):
    pairs = []
    for c in corpus_cases():
        r = execute(bt, c)
        if "skip" not in r:
            pairs.append((c, r))
    for i in range(n_direct):
        kind = (kinds or KINDS)[i % len(kinds or KINDS)] if ctx.rng.random() < 0.7 else None
        case = gen_case(ctx.rng, kind if kinds is None or kind in kinds else None)
        if kinds is not None and case["kind"] not in kinds:
            case = gen_case(ctx.rng, ctx.rng.choice(kinds))
        res = execute(bt, case)
        if "skip" in res:
            ctx.count("case-skipped:" + res["skip"])
            continue
        pairs.append((case, res))
    n, d = judge(ctx, pairs, corr_name)
    ctx.protocols.append((corr_name, n, d))
    if n_pipes:
        pairs = []
        for _ in range(n_pipes):
            pipe = gen_pipeline(ctx.rng)
            recs, status = run_pipeline(bt, pipe)
            ctx.count("backtest-run:" + status)
            pairs.extend(recs)
        n, d = judge(ctx, pairs, corr_name + ":backtest")
        ctx.protocols.append((corr_name + ":backtest", n, d))


# ------------------------------------------------------------------ SelectActive inside life-cycle histories
# SelectActive's documented set is stated in terms of what ClosePositionsAfterDates / RollPositionsAfterDates have done, so the
# direct-call cases above (perm filled by hand) judge only half of it.  Here the real life-cycle algos run day after day in front of
# the real SelectActive (generator and tapped execution shared with C20), with names that are held, sold earlier or never bought when
# their close / roll date passes, and asked for again afterwards.
def gen_lifecycle(rng):
    from . import C20
    lazy_mode = "none" if rng.random() < 0.6 else None
    if rng.random() < 0.25:      # the documented workflow: SelectActive feeding WeighEqually / Rebalance
        spec = C20.gen_life_case(rng, lazy_mode=lazy_mode, fi=False, mode="rebalance")
    else:
        spec = C20.gen_life_case(rng, lazy_mode=lazy_mode)
    T = len(spec["dates"])
    due = {}
    for nm, i in (spec.get("close") or {}).items():
        if i is not None:
            due[nm] = i
    for nm, v in (spec.get("roll") or {}).items():
        if v[0] is not None:
            due[nm] = min(v[0], due.get(nm, T))
    shape = "as-generated"
    stack = spec["tree"]["stack"]
    r = rng.random()
    if spec["life"]["mode"] == "rebalance":
        r = 0.5 if r < 0.6 else 1.0
    if r < 0.45:
        # some names are not traded until their date is behind them (never bought, then asked for), or are sold the day before
        for a in stack:
            if a["k"] != "trade_selected":
                continue
            for nm in sorted(due):
                if nm not in spec["prices"] or rng.random() < 0.35:
                    continue
                how = rng.choice(["never-bought", "never-bought", "sold-before"])
                for i, d in enumerate(spec["dates"]):
                    if i <= due[nm] and nm in a["plan"].get(d, {}):
                        if how == "never-bought" or i == due[nm]:
                            del a["plan"][d][nm]
                if how == "sold-before" and due[nm] >= 2:
                    q = C20.gen_qty(rng, spec["integer"])
                    a["plan"].setdefault(spec["dates"][0], {})[nm] = q
                    for i in range(1, due[nm]):
                        a["plan"].get(spec["dates"][i], {}).pop(nm, None)
                    a["plan"].setdefault(spec["dates"][due[nm] - 1], {})[nm] = -q
                for i in range(due[nm] + 1, T):
                    if rng.random() < 0.5:
                        a["plan"].setdefault(spec["dates"][i], {})[nm] = C20.gen_qty(rng, spec["integer"])
                shape = "flat-at-date"
    elif r < 0.7:
        # the weighting part of the stack starts late: nothing is held while the early dates pass
        for a in stack:
            if a["k"] == "run_after":
                a["i"] = rng.randint(1, max(1, T - 2))
                shape = "late-start"
    spec["c14_shape"] = shape
    return spec


def lifecycle_monitor(spec, log):
    """SelectActive leaves the incoming list minus every name that ClosePositionsAfterDates / RollPositionsAfterDates has dealt with:
    a security child of the strategy on a call of the algo made on or after the name's date in the table (order kept, nothing else
    removed).  Judged from the tables of the case and the taps' before-snapshots only, never from perm.
    -> (violations [(key, msg)], counters [str])"""
    dts = pd.DatetimeIndex(spec["dates"])
    tables = {"close": {nm: i for nm, i in (spec.get("close") or {}).items() if i is not None},
              "roll": {nm: v[0] for nm, v in (spec.get("roll") or {}).items() if v[0] is not None}}
    dealt = {}      # path -> {name: "flat" | "held"} (as the algo found it the first time)
    out, cnt = [], []
    asked_flat = set()
    for e in log:
        k = e["k"]
        if e.get("err") or "post" not in e:
            continue
        if k in tables:
            seen = dealt.setdefault(tuple(e["path"]), {})
            for sn in e["pre"]["kids"]:
                nm = sn.get("sec")
                if nm is None or nm in seen or nm not in tables[k]:
                    continue
                if dts[tables[k][nm]] <= e["date"]:
                    seen[nm] = "flat" if sn["pos"] == 0 else "held"
                    cnt.append("lifecycle:%s:%s-when-its-date-passed" % (k, seen[nm]))
        elif k == "select_active":
            gone = dealt.get(tuple(e["path"]), {})
            s0, s1 = list(e["sel0"]), list(e["sel1"])
            exp = [s for s in s0 if s not in gone]
            cnt.append("lifecycle:select-active-call:%s" % ("nothing-to-exclude" if exp == s0 else "excludes"))
            for s in s0:
                if gone.get(s) == "flat" and (tuple(e["path"]), s) not in asked_flat:
                    asked_flat.add((tuple(e["path"]), s))
                    cnt.append("lifecycle:flat-at-its-date-and-asked-for-later")
            if s1 != exp:
                extra = [s for s in s1 if s not in exp]
                missing = [s for s in exp if s not in s1]
                what = "lets-closed-or-rolled-through" if extra else ("drops-active" if missing else "order")
                out.append(("C14/selected-set:SelectActive:life-cycle:" + what,
                            "on %s SelectActive got %r and left %r, documented %r: closed / rolled by the life-cycle algos so far %r "
                            "(close dates %r, roll dates %r)" % (pd.Timestamp(e["date"]).date(), s0, s1, exp, gone,
                                                                {n: spec["dates"][i] for n, i in tables["close"].items()},
                                                                {n: spec["dates"][i] for n, i in tables["roll"].items()})))
    return out, cnt


def run_lifecycle_case(ctx, bt, spec):
    from . import C20
    ctx.evaluations += 1
    log, _, outcome = C20.execute(bt, spec)
    ctx.count("lifecycle:cases:%s:%s" % (spec["life"]["mode"], spec.get("c14_shape", "replayed")))
    ctx.count("lifecycle:run:%s" % ("completed" if not outcome["raised"] else "stopped:" + str(outcome["raised"]).split(":")[0]))
    found, cnt = lifecycle_monitor(spec, log)
    for c in cnt:
        ctx.count(c)
    seen = set()
    for key, msg in found:
        ctx.count("monitor:" + key)
        if key not in seen:      # one replay file per clause and case
            seen.add(key)
            ctx.violation(key, msg, {"case": {"kind": "life-cycle", "spec": spec}})
    return found


def run_lifecycle(ctx, bt, n):
    for _ in range(n):
        run_lifecycle_case(ctx, bt, gen_lifecycle(ctx.rng))


def run(ctx, bt):
    run_stream(ctx, bt, ctx.scale(6000, 100000), ctx.scale(120, 1500), "select")
    run_lifecycle(ctx, bt, ctx.scale(70, 1200))
    # selection sequences (SelectAll / SelectThese / SelectHasData / SelectMomentum) inside complete backtests: the model evaluates
    # them on its own universe table (price columns up to the current row, sub-strategy indices) and trades what they select
    from .. import whole_run as W
    W.whole_run_protocol(ctx, bt, ctx.scale(30, 600), "whole-run-x[C14]:selection-sequences", extended=True)
    # the framework starts the failing-input search only when there is no violation at all; the listed known
    # findings are always present here, so start it ourselves when every violation so far is a listed one
    if ctx.disagreements and ctx.violations:
        from ..framework import load_known
        known = {k["key"] for k in load_known() if k.get("property") == "C14" and k.get("status") == "finding"}
        if all(v["key"] in known for v in ctx.violations):
            ctx.notes.append("correspondence broke (only listed findings so far): failing-input search started")
            search(ctx, bt)


def search(ctx, bt):
    kinds = sorted({d["replay_data"]["case"]["kind"] for d in ctx.disagreements}) or None
    run_stream(ctx, bt, ctx.scale(6000, 40000), 0, "select:search", kinds=kinds)


def replay(bt, data, ctx):
    case = data["case"]["case"]
    if case.get("kind") == "life-cycle":
        run_lifecycle_case(ctx, bt, json.loads(json.dumps(case["spec"])))
        return
    if case.get("source") == "backtest":
        case = dict(case)
        case["source"] = "backtest-replayed-as-direct-call"
    res = execute(bt, case)
    judge(ctx, [(case, res)], "select:replay")
