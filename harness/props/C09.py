"""C09 sub-strategy index = stand-alone index: nested generated backtests (children with any head: calendar schedulers, RunOnce,
RunEveryNPeriods, RunAfterDays, RunAfterDate, RunOnDate, no scheduler at all; any parent allocation schedule incl. never funding the
child, integer/fractional, commissions) vs the same child definition backtested on its own; the child's price series, and the column
the parent sees in its universe, compared date for date bit for bit."""
import copy

import numpy as np

from .. import engine as E
from .. import gen_runs as R

RULE = ("nested programs: 1-2 sub-strategies over subsets of the tickers whose stacks are headed by a calendar scheduler (RunDaily/Weekly/Monthly, all "
        "flag combinations), a counting scheduler (RunOnce, RunEveryNPeriods, RunAfterDays), a date scheduler or no scheduler at all; parents with any "
        "stack (funding children always / sometimes / never), crash paths that bankrupt the child's shadow copy, "
        "integer and fractional, commission family; stand-alone twin = bt.Backtest of the same child definition with the same settings and the "
        "default capital. distinct = (child schedule+flags, child stack, parent stack head, integer, commission, child bankrupt?)")
ASSUMPTIONS = ["identical operations in identical order, so equality is demanded bit for bit",
               "since the repair of StrategyBase.update (a shadow copy is not run on the first row of the data) the child's head may be any scheduler or none: "
               "the calendar-scheduler restriction of the property's quantifier is no longer needed"]


COUNTING = ("RunOnce", "RunEveryNPeriods", "RunAfterDays")


def counting_head(rng):
    r = rng.random()
    if r < 0.35:
        return ["RunOnce"]
    if r < 0.7:
        n = rng.randint(1, 4)
        return ["RunEveryNPeriods", n, rng.randint(0, max(0, n - 1))]
    return ["RunAfterDays", rng.randint(1, 6)]


def gen_counting_child_case(rng):
    """a market-value parent over sub-strategies whose stacks act on their FIRST call: headed by RunOnce / RunEveryNPeriods /
    RunAfterDays, or with no scheduler at all.  Before the repair the shadow copy's first call was on the synthetic row (RunOnce never
    traded inside a parent, the period counters were one call ahead, a stack without a scheduler raised on the NaN prices)."""
    spec = R.gen_run_spec(rng, nested=True, crash=rng.random() < 0.2, calendar_children=True)
    for kid in spec["tree"]["kids"]:
        r = rng.random()
        if r < 0.85:
            kid["stack"] = [counting_head(rng)] + kid["stack"][1:]
        elif r < 0.95:
            kid["stack"] = kid["stack"][1:]          # no scheduler: acts on every call
    spec["counting_children"] = True
    return spec


def gen_case(rng):
    spec = _gen_case(rng)
    if rng.random() < 0.3:
        # definitions pre-configured by their author (whole units on / off): the Backtest's own setting applies to the whole tree,
        # nested and stand-alone alike
        for kid in spec["tree"]["kids"]:
            if rng.random() < 0.7:
                kid["preset_integer"] = rng.random() < 0.5
    return spec


def _gen_case(rng):
    spec = R.gen_run_spec(rng, nested=True, crash=rng.random() < 0.3, calendar_children=rng.random() < 0.6)
    if rng.random() < 0.2:
        # leveraged child: its shadow copy can go bankrupt
        kid = rng.choice(spec["tree"]["kids"])
        ws = {t: rng.choice([1.5, 2.0, -1.0, 3.0]) / max(1, len(kid["tickers"])) for t in kid["tickers"]}
        kid["stack"] = [kid["stack"][0], ["WeighSpecified", ws], ["Rebalance"]]
        spec["levered_child"] = True
    elif rng.random() < 0.25:
        # levered ROOT on a crash path: the real tree goes bankrupt while the children's shadow copies must carry on
        spec2 = R.gen_run_spec(rng, nested=True, crash=True, calendar_children=True)
        names = [k["name"] for k in spec2["tree"]["kids"]] + list(spec2["tree"]["tickers"] or [])
        lev = rng.choice([2.0, 3.0, 4.0, 6.0])
        ws = {nm: lev / len(names) for nm in names}
        spec2["tree"]["stack"] = [["RunDaily", True, False, False], ["WeighSpecified", ws], ["Rebalance"]]
        for kid in spec2["tree"]["kids"]:
            kid["stack"] = [["RunDaily", True, False, False], ["SelectAll"], ["WeighEqually"], ["Rebalance"]]
        spec2["levered_root"] = True
        return spec2
    return spec


def standalone_spec(spec, kid):
    s = copy.deepcopy(spec)
    s["tree"] = {"name": kid["name"], "tickers": kid["tickers"], "kids": copy.deepcopy(kid.get("kids", [])), "stack": kid["stack"]}
    if kid.get("preset_integer") is not None:
        s["tree"]["preset_integer"] = kid["preset_integer"]
    s["capital"] = 1000000.0
    return s


def sub_specs(tree, path=()):
    """(path of names, spec node) of every sub-strategy at any depth"""
    out = []
    for k in tree.get("kids", []):
        out.append((path + (k["name"],), k))
        out += sub_specs(k, path + (k["name"],))
    return out


def run_case(ctx, bt, spec):
    try:
        b, data, add = R.build_backtest(bt, spec)
        b.run()
    except Exception as e:  # noqa
        ctx.count("nested-raised:" + E.classify_exc(e))
        return
    ctx.count("nested-completed")
    root = b.strategy
    for names, kid in sub_specs(spec["tree"]):
        child = root
        for nm in names:
            child = child.children[nm]
        parent = child.parent
        depth = len(names)
        try:
            sb, _, _ = R.build_backtest(bt, standalone_spec(spec, kid))
            sb.run()
        except Exception as e:  # noqa
            ctx.count("standalone-raised:" + E.classify_exc(e))
            continue
        cp = np.asarray(child.prices.values, dtype=float)
        sp = np.asarray(sb.strategy.prices.values, dtype=float)
        funded = bool(np.any(np.asarray(child._all_flows.values) != 0))
        ctx.count("children-compared")
        ctx.count("children-compared:depth-%d" % depth)
        ctx.count("child-funded" if funded else "child-never-funded")
        bankrupt = bool(sb.strategy.bankrupt)
        ctx.classes.add((repr(kid["stack"][0]), tuple(d[0] for d in kid["stack"][1:]), spec["tree"]["stack"][0][0], spec["integer"], spec["comm"][0], bankrupt, funded, depth))
        rd = {"spec": spec, "child": ">".join(names)}
        if len(cp) != len(sp):
            ctx.violation("C09/length", "child %s has %d index rows, stand-alone %d" % (kid["name"], len(cp), len(sp)), rd)
            continue
        bad = [i for i in range(len(cp)) if E.f2b(cp[i]) != E.f2b(sp[i]) and not (cp[i] == sp[i])]
        if bad:
            i = bad[0]
            key = "C09/index-differs" + (":after-own-bankruptcy" if bankrupt else
                                         ":counting-scheduler-child" if kid["stack"][0][0] in COUNTING or not kid["stack"][0][0].startswith("Run") else "")
            ctx.violation(key, "child %s (depth %d) index on date#%d is %r nested but %r stand-alone (stand-alone bankrupt=%s; first rows nested %r / alone %r)"
                          % (">".join(names), depth, i, cp[i], sp[i], bankrupt, list(cp[max(0, i - 2):i + 2]), list(sp[max(0, i - 2):i + 2])), rd)
            continue
        col = np.asarray(parent._universe[kid["name"]].values, dtype=float)
        badc = [i for i in range(len(cp)) if not (col[i] == cp[i])]
        if badc:
            i = badc[0]
            ctx.violation("C09/universe-column", "parent universe column %s on date#%d is %r, child index %r" % (kid["name"], i, col[i], cp[i]), rd)


def paper_calls_protocol(ctx, bt, n):
    """`paperseq`: for every sub-strategy of generated nested runs, the dates of the update() calls it receives (with all the
    repetitions the parent's refreshes cause) and the dates on which its shadow copy was actually stepped, vs the model's
    `clockDates` (stepped exactly when the child's own clock changes)."""
    import contextlib
    from ..leanrun import run_lines
    c = bt.core
    lines, meta = [], []
    for _ in range(n):
        spec = gen_case(ctx.rng)
        log = {}
        papers = {}
        orig = c.StrategyBase.update

        def w(self, date, data=None, inow=None, _orig=orig):
            ent = None
            if getattr(self, "_paper_trade", False) and self.parent is not self and getattr(self, "_paper", None) is not None:
                try:
                    d = 0 if (isinstance(date, int) and date == 0) else int(self.data.index.get_loc(date))
                except Exception:
                    d = None
                if d is not None:
                    ent = log.setdefault(id(self), {"obj": self, "calls": [], "stepped": [], "open": False})
                    ent["calls"].append(d)
                    ent["open"] = True
                    papers[id(self._paper)] = ent
            pe = papers.get(id(self))
            if pe is not None and pe["obj"]._paper is self and pe["open"]:
                pe["open"] = False          # first update of the shadow copy inside this call of the child
                pe["stepped"].append(pe["calls"][-1])
            try:
                return _orig(self, date, data, inow)
            finally:
                if ent is not None:
                    ent["open"] = False
        c.StrategyBase.update = w
        try:
            b, data, add = R.build_backtest(bt, spec)
            b.run()
            # a few extra refreshing reads / re-updates by the user after the run: repetitions of the last date
            for _k in range(ctx.rng.randint(0, 3)):
                b.strategy.update(b.strategy.now)
        except Exception as e:  # noqa
            ctx.count("paperseq:program-raised:" + E.classify_exc(e))
        finally:
            c.StrategyBase.update = orig
        for ent in log.values():
            calls = ent["calls"]
            lines.append("paperseq N %s" % E.tL(calls, str))
            meta.append((spec, ent["obj"].full_name, calls, ent["stepped"]))
            ctx.count("paperseq:children")
            ctx.count("paperseq:update-calls", len(calls))
            ctx.count("paperseq:repeated-calls", len(calls) - len(set(calls)))
    outs = run_lines(lines) if lines else []
    nd = 0
    for (spec, name, calls, stepped), o in zip(meta, outs):
        toks = o.split()
        model = [int(x) for x in toks[2:]] if toks and toks[0] == "ok" else None
        if model != stepped:
            nd += 1
            ctx.disagreement("corr:paperseq:%s" % ("length" if model is None or len(model) != len(stepped) else "dates"),
                             {"child": name, "calls": calls[:60], "real_stepped": stepped[:60], "model": (model or [])[:60]}, {"spec": spec, "child": name})
    ctx.protocols.append(("paperseq", len(meta), nd))


def gen_deep_case(rng):
    """three strategy levels (root > mid > leaf), securities declared up front, commissions / spreads / integer positions from the
    run generator: every sub-strategy at every depth is compared with its stand-alone backtest"""
    from .. import whole_run as W
    spec = W.gen_spec(rng, nested=True, depth3=True)
    if spec["comm"][0] == 0 and rng.random() < 0.7:
        spec["comm"] = rng.choice([[3, 0, 0.001], [2, 0, 0.0078125], [1, 2.0, 0], [5, 1.0, 0.001]])
    return spec


def gen_three_level_case(rng):
    """always three strategy levels, and the leaf mostly trades names its holder does not list itself (each level's universe is
    cut from the full data, not from its holder's)"""
    from .. import whole_run as W
    spec = W.gen_spec(rng, nested=False)
    tick = list(spec["tickers"])

    def node(name, own, kids):
        return {"name": name, "tickers": own, "kids": kids, "stack": W.gen_stack(rng, [k["name"] for k in kids] + own)}
    mids = []
    for i in range(rng.randint(1, 2)):
        mown = rng.sample(tick, rng.randint(1, max(1, len(tick) - 1)))
        leaves = []
        for j in range(rng.randint(1, 2)):
            lown = rng.sample(tick, rng.randint(1, len(tick)))
            rest = [t for t in tick if t not in mown]
            if rest and set(lown) <= set(mown) and rng.random() < 0.8:
                lown.append(rng.choice(rest))
            leaves.append(node("top_s%d_s%d" % (i, j), lown, []))
        mids.append(node("top_s%d" % i, mown, leaves))
    spec["tree"] = node("top", rng.sample(tick, rng.randint(1, len(tick))), mids)

    def all_follow(t):
        return t["stack"][2][0] == "WeighEqually" and all(all_follow(k) for k in t["kids"])
    if not all_follow(spec["tree"]):
        for t in tick:
            spec["prices"][t] = [p_ if p_ is not None else 10.0 for p_ in spec["prices"][t]]
    if spec["comm"][0] == 0 and rng.random() < 0.5:
        spec["comm"] = rng.choice([[3, 0, 0.001], [2, 0, 0.0078125], [1, 2.0, 0], [5, 1.0, 0.001]])
    return spec


def fi_nested_cases(ctx, bt, n):
    """a fixed-income book inside a fixed-income book: the child is a generated fixed-income program (its own schedule, weights and
    notional series, coupons, holding costs, spreads or commissions), the parent re-sizes it on its own schedule to a notional series
    of its own.  The child's index is the index of the same definition run alone, and is what the parent sees in its universe."""
    import pandas as pd
    from . import C17 as FI
    for _ in range(n):
        spec = FI.gen_program(ctx.rng)
        T = len(spec["dates"])
        top = {"sched": ctx.rng.choice(["RunDaily", "RunWeekly", "RunDaily"]), "w": ctx.rng.choice([1.0, 1.0, 0.5, 2.0, -1.0]),
               "notional": [float(ctx.rng.choice([500, 2000, 40000, 40000, 300000])) for _ in range(T)]}
        if ctx.rng.random() < 0.5:       # piecewise constant: re-sized a few times
            k = sorted(ctx.rng.sample(range(T), min(T, 3)))
            v = top["notional"][0]
            for i in range(T):
                if i in k:
                    v = top["notional"][i]
                top["notional"][i] = v
        rd = {"fi_nested": {"kid": spec, "top": top}}
        ctx.evaluations += 1
        a = bt.algos
        try:
            s, data, add, kw = FI.program_parts(bt, spec)
            alone = bt.Backtest(s, data, integer_positions=spec["integer"], additional_data=add, progress_bar=False, **kw)
            alone.run()
        except Exception as e:  # noqa
            ctx.count("fi-nested:standalone-raised:" + E.classify_exc(e))
            continue
        try:
            s, data, add, kw = FI.program_parts(bt, spec)
            add = dict(add)
            add["top_notional"] = pd.Series(top["notional"], index=pd.DatetimeIndex(spec["dates"]))
            sched = {"RunDaily": a.RunDaily(), "RunWeekly": a.RunWeekly()}[top["sched"]]
            t = bt.FixedIncomeStrategy("top", algos=[sched, a.WeighSpecified(fi=top["w"]), a.SetNotional("top_notional"), a.Rebalance()], children=[s])
            nested = bt.Backtest(t, data, integer_positions=spec["integer"], additional_data=add, progress_bar=False, **kw)
            nested.run()
        except Exception as e:  # noqa
            ctx.count("fi-nested:nested-raised:" + E.classify_exc(e))
            continue
        ctx.count("fi-nested:compared")
        kid = nested.strategy["fi"]
        ctx.count("fi-nested:child-resized-by-parent" if len(set(np.round(np.asarray(kid.notional_values.values, dtype=float), 6))) > 2 else "fi-nested:child-size-constant")
        ctx.classes.add(("fi-nested", tuple(spec["kinds"]), spec["sched"], top["sched"], top["w"], spec["integer"], spec["comm"][0], spec["bidoffer"]))
        cp = np.asarray(kid.prices.values, dtype=float)
        sp = np.asarray(alone.strategy.prices.values, dtype=float)
        if len(cp) != len(sp):
            ctx.violation("C09/length", "fixed-income child has %d index rows, stand-alone %d" % (len(cp), len(sp)), rd)
            continue
        bad = [i for i in range(len(cp)) if not (cp[i] == sp[i] or (cp[i] != cp[i] and sp[i] != sp[i]))]
        if bad:
            i = bad[0]
            ctx.violation("C09/index-differs:fixed-income-child", "fixed-income child under a fixed-income parent: index on date#%d is %r nested but %r stand-alone "
                          "(rows around: nested %r / alone %r)" % (i, cp[i], sp[i], list(cp[max(0, i - 2):i + 2]), list(sp[max(0, i - 2):i + 2])), rd)
            continue
        col = np.asarray(nested.strategy._universe["fi"].values, dtype=float)
        badc = [i for i in range(len(cp)) if not (col[i] == cp[i] or (col[i] != col[i] and cp[i] != cp[i]))]
        if badc:
            i = badc[0]
            ctx.violation("C09/universe-column", "fixed-income parent: universe column on date#%d is %r, child index %r" % (i, col[i], cp[i]), rd)


def gen_counting_x(rng):
    """a nested extended program at least one of whose sub-strategies is headed by RunOnce / RunEveryNPeriods / RunAfterDays"""
    from .. import whole_run as W

    def has(t, top=True):
        return ((not top) and t["stack"] and t["stack"][0][0] in ("RunOnce", "RunEveryNPeriods", "RunAfterDays", "CapitalFlow") and
                any(d[0] in ("RunOnce", "RunEveryNPeriods", "RunAfterDays") for d in t["stack"][:2])) or any(has(k, False) for k in t["kids"])
    spec = None
    for _ in range(40):
        spec = W.gen_spec_x(rng, nested=True)
        if has(spec["tree"]):
            break
    return spec


def corpus():
    import json
    import os
    p = os.path.join(os.path.dirname(os.path.dirname(os.path.dirname(os.path.abspath(__file__)))), "corpus", "C09_counting_scheduler_child.json")
    return json.load(open(p)) if os.path.exists(p) else []


def run(ctx, bt):
    # regression cases of the repaired defect C09/index-differs:counting-scheduler-child (sub-strategies headed by RunOnce /
    # RunEveryNPeriods / RunAfterDays whose index differed nested vs stand-alone before the repair of StrategyBase.update)
    for spec in corpus():
        ctx.evaluations += 1
        ctx.count("corpus:counting-scheduler-child")
        run_case(ctx, bt, spec)
    fi_nested_cases(ctx, bt, ctx.scale(30, 600))
    for _ in range(ctx.scale(25, 500)):
        spec = gen_deep_case(ctx.rng)
        ctx.evaluations += 1
        run_case(ctx, bt, spec)
    for _ in range(ctx.scale(25, 500)):
        spec = gen_three_level_case(ctx.rng)
        ctx.evaluations += 1
        run_case(ctx, bt, spec)
    for _ in range(ctx.scale(70, 1500)):
        spec = gen_case(ctx.rng)
        ctx.evaluations += 1
        if len(ctx.samples) < 2:
            ctx.sample({"tree": spec["tree"], "integer": spec["integer"], "comm": spec["comm"]})
        run_case(ctx, bt, spec)
    for _ in range(ctx.scale(40, 800)):
        spec = gen_counting_child_case(ctx.rng)
        ctx.evaluations += 1
        ctx.count("counting-scheduler-children:programs")
        for kid in spec["tree"]["kids"]:
            ctx.count("counting-scheduler-children:head:" + (kid["stack"][0][0] if kid["stack"][0][0].startswith("Run") else "none"))
        run_case(ctx, bt, spec)
    from ..runs_run import run_days_protocol
    run_days_protocol(ctx, bt, ctx.scale(12, 300), None, "btday[C09]:root-and-shadow-copies",
                      make_spec=lambda rng: gen_counting_child_case(rng) if rng.random() < 0.4 else gen_case(rng))
    paper_calls_protocol(ctx, bt, ctx.scale(15, 300))
    from .. import whole_run as W
    # nested backtests executed end to end by the model, every shadow copy being a stand-alone backtest of the child's program
    W.whole_run_protocol(ctx, bt, ctx.scale(25, 500), "whole-run[C09]:nested-programs",
                         make_spec=lambda rng: W.gen_spec(rng, nested=True, depth3=rng.random() < 0.3))
    # ... and nested extended programs in which some sub-strategy is headed by a counting scheduler: the model's shadow copies are
    # not run on the first date either (simDayG0), the scheduler model receives its first call on the first real date everywhere
    W.whole_run_protocol(ctx, bt, ctx.scale(20, 400), "whole-run-x[C09]:counting-scheduler-children", make_spec=gen_counting_x, extended=True)


def search(ctx, bt):
    for _ in range(ctx.scale(400, 3000)):
        run_case(ctx, bt, gen_case(ctx.rng))
        ctx.evaluations += 1
        if ctx.violations:
            return


def replay(bt, data, ctx):
    if "fi_nested" in data["case"]:
        import random as _r
        ctx.notes.append("fixed-income nested cases are regenerated from the seed of the run")
        fi_nested_cases(ctx, bt, 60)
        return
    run_case(ctx, bt, data["case"]["spec"])
