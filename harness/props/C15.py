"""C15 weighting algos: real algos called on a real Strategy (public API), Lean model through the `weigh`
driver requests, independent monitors of the documented relations."""
import random as pyrandom

from .. import leanrun
from .. import weigh_cases as K
from ..weigh_lib import Case

RULE = ("generated (universe, date, selection / prior temp['weights'] / current portfolio, algo parameters) cases per weighting algo; "
        "the real algo is called on a real bt.Strategy (setup, update, adjust, rebalance to build a portfolio, temp set, algo(target)); "
        "the same inputs go to the Lean model (driver request `weigh`), results compared (keys exactly, reals 1e-9 relative); "
        "an independent numpy/pandas monitor evaluates the documented relation on the real result.  ERC / mean-variance: bt's "
        "plumbing compared with the model, the optimiser's output checked by the Lean predicates ercSpec / meanVarSpec (runtime verification).  "
        "distinct = (algo, selection size class, numeric grid, parameter class, outcome class)")
ASSUMPTIONS = [
    "selections are lists of distinct names present in the universe (duplicates only in the ill-formed stream, correspondence only)",
    "prices in the universe are positive or NaN (zero / negative prices are ill-formed and not generated)",
    "pandas DateOffset arithmetic (now - lag, t0 - lookback) is pandas' calendar: the harness converts offsets to whole days with pandas",
    "ffn.calc_erc_weights / calc_mean_var_weights / sklearn ledoit_wolf are external: their outputs are checked at run time against "
    "ercSpec / meanVarSpec (tolerance 2e-2 / 1e-6), not proved",
    "random.uniform(a,b) = a + (b-a)*random() and random.shuffle's index walk (CPython random module) are replayed from the seed",
    "weights in temp['weights'] are finite numbers on entry (NaN weights on entry are ill-formed)",
    "monitor tolerance 1e-9*scale for relations computed in doubles",
]

def run_cases(ctx, bt, n, only=None, corr_suffix=""):
    kinds = only or K.KINDS
    cases = []
    for i in range(n):
        kind = kinds[i % len(kinds)]
        ctx.evaluations += 1
        cdata = K.GEN[kind](ctx.rng)
        c = execute(ctx, bt, kind, cdata)
        cases.append(c)
        if i < 2 * len(kinds):
            ctx.sample({"kind": kind, "class": str(c.cls), "tags": c.tags[:6]}, cap=2 * len(kinds))
    settle(ctx, cases, corr_suffix)
    return cases


def execute(ctx, bt, kind, cdata):
    c = Case(kind, cdata)
    state = pyrandom.getstate()
    try:
        K.EXEC[kind](bt, c)
    except Exception as e:  # never on the unchanged tree: the real code left something the executor cannot digest
        from ..weigh_lib import FixtureIllFormed
        if isinstance(e, FixtureIllFormed):
            c.requests = []
            c.tags.append("fixture-zero-base-skipped")
            for t in c.tags:
                ctx.count(kind + ":" + t)
            return c
        import traceback
        c.requests = []
        c.violations.append(("C15/%s-unexpected-exception:%s" % (kind, type(e).__name__),
                             "executing the case raised %s: %s | %s" % (type(e).__name__, str(e)[:200], traceback.format_exc()[-600:].replace("\n", " | "))))
        c.tags.append("unexpected-exception")
    finally:
        pyrandom.setstate(state)
    for t in c.tags:
        ctx.count(kind + ":" + t)
    ctx.count("cases:" + kind)
    if c.cls is not None:
        ctx.classes.add((kind,) + tuple(c.cls))
    for key, msg in c.violations:
        ctx.violation(key, msg, {"kind": kind, "data": c.case})
    return c


def settle(ctx, cases, corr_suffix=""):
    lines = []
    owners = []
    for c in cases:
        for line, cb in c.requests:
            lines.append("weigh " + line)
            owners.append((c, cb))
    answers = leanrun.run_lines(lines)
    per = {}
    for (c, cb), line, ans in zip(owners, lines, answers):
        name = "weigh:" + c.kind + corr_suffix
        st = per.setdefault(name, [0, 0])
        st[0] += 1
        try:
            detail = cb(ans)
        except Exception as e:  # malformed answer counts as a disagreement, never as a crash
            detail = {"parse": repr(e), "answer": ans[:300]}
        if detail is not None:
            st[1] += 1
            ctx.disagreement("corr:" + name + ":" + line.split()[0], detail, {"kind": c.kind, "data": c.case})
    for name in sorted(per):
        ctx.protocols.append((name, per[name][0], per[name][1]))


def run(ctx, bt):
    n = ctx.scale(4400, 48000)
    run_cases(ctx, bt, n)
    # the weights at work: complete backtests whose stacks weigh equally / by a specified table / by dated target frames, executed end
    # to end by the model
    from .. import whole_run as W
    W.whole_run_protocol(ctx, bt, ctx.scale(25, 500), "whole-run-x[C15]:weights-inside-backtests", extended=True)


def search(ctx, bt):
    bad = sorted({d["replay_data"]["kind"] for d in ctx.disagreements if isinstance(d.get("replay_data"), dict) and "kind" in d["replay_data"]})
    ctx.notes.append("search biased to: %s" % bad)
    run_cases(ctx, bt, ctx.scale(4000, 30000), only=bad or None, corr_suffix=":search")


def replay(bt, data, ctx):
    case = data["case"]
    c = execute(ctx, bt, case["kind"], case["data"])
    settle(ctx, [c])
