"""C06 Rebalance reaches the targets: random prior portfolios built by engine histories, then the real
bt.algos.Rebalance / RebalanceOverTime called on a strategy node with generated temp['weights'] / ['cash'] /
['notional_value']; the call is re-executed by the Lean model (`algoRebalance`) from the real pre-state; a monitor
checks target weights, closed non-targets, cash remainder, sub-strategy spreading and the n-step variant."""
import copy

import numpy as np

from .. import engine as E
from .. import gen_engine as G
from .. import leanrun

RULE = ("prior portfolio = generated engine history (closing update); target node = any strategy of the tree; targets long/short with "
        "sum |w| <= 1, cash fraction in {none, 1/8, 1/4, 1/2}, fixed-income trees with a notional; exact clause on fractional/no-cost cases, "
        "one-unit-plus-costs clause otherwise; RebalanceOverTime on constant prices. "
        "distinct = (tree shape, node depth, #targets, short?, cash?, integer, commission kind, sub-strategy target?, prior flat?)")
ASSUMPTIONS = ["exact clause compared at 1e-9 relative; the integer/cost clause allows one unit of every traded security plus the costs paid plus 1e-9"]


def all_strats(tree, prefix=()):
    out = []
    if "sec" not in tree:
        out.append((list(prefix), tree))
        for i, k in enumerate(tree["kids"]):
            out += all_strats(k, prefix + (i,))
    return out


def gen_case(rng, fi=None, rotate=False):
    spec = G.gen_spec(rng, fi_tree=(rng.random() < 0.2) if fi is None else fi)
    # keep prices present and positive from date 1 on for the rebalance itself
    for t, col in spec["prices"].items():
        for i in range(len(col)):
            if col[i] is None or col[i] == 0.0:
                if i > 0:
                    col[i] = col[i - 1] if col[i - 1] else 10.0
                elif col[i] == 0.0:
                    col[i] = 10.0
    exact = rng.random() < 0.5
    if exact:
        spec["integer"] = False
        spec["comm"] = [0, 0, 0]
        spec["bidoffer"] = None
    nops = rng.randint(4, 16) if rng.random() < 0.85 else 2
    strats = all_strats(spec["tree"])
    path, node = rng.choice(strats)
    kids = node["kids"]
    k = rng.randint(1, len(kids))
    if rng.random() < 0.08:
        k = 0         # an empty target vector ("hold nothing"): everything open is closed, the value stays in cash
    idxs = sorted(rng.sample(range(len(kids)), k))
    dropped = None
    withsub = [(p, n) for p, n in strats if any("sec" not in kd for kd in n["kids"]) and len(n["kids"]) >= 2] if rotate else []
    if rotate and withsub:
        # rotating away from a sub-strategy: a parent of sub-strategies whose targets leave one of them out (or give it exactly 0) -
        # whatever it holds by then is closed and its capital handed back
        deep = [(p, n) for p, n in withsub if p]      # a parent that is itself a sub-strategy (three levels), when there is one
        path, node = rng.choice(deep if deep and rng.random() < 0.6 else withsub)
        kids = node["kids"]
        subs = [i for i, kd in enumerate(kids) if "sec" not in kd]
        if rotate == "fund":
            # ... or funding one: the sub-strategy is among the targets (capital passes from this parent, not from the root)
            keep = rng.choice(subs)
            rest = [i for i in range(len(kids)) if i != keep]
            idxs = sorted([keep] + rng.sample(rest, rng.randint(0, len(rest))))
        else:
            dropped = rng.choice(subs)
            others = [i for i in range(len(kids)) if i != dropped]
            idxs = sorted(rng.sample(others, rng.randint(1, len(others))))
        nops = max(nops, 8)
    ws = []
    tot = 0.0
    for i in idxs:
        w = rng.choice([0.125, 0.25, 0.5, 0.375, -0.25, -0.125, 0.0625, 1.0, 0.0]) if spec["grid"] != "float" or rng.random() < 0.4 else round(rng.uniform(-0.4, 0.9), 6)
        if tot + abs(w) > 1.0:
            w = 0.0625 if tot + 0.0625 <= 1.0 else 0.0
        tot += abs(w)
        ws.append(w)
    if dropped is not None and rng.random() < 0.4:   # (drawn only in rotating cases)
        idxs.append(dropped)
        ws.append(0.0)
        order = sorted(range(len(idxs)), key=lambda j: idxs[j])
        idxs = [idxs[j] for j in order]
        ws = [ws[j] for j in order]
    cash = rng.choice([None, None, 0.125, 0.25, 0.5])
    notional = None
    if node["fi"]:
        cash = None
        notional = float(rng.choice([1000, 50000, 1000000])) if rng.random() < 0.8 else None
    # a contribution / redemption booked by CapitalFlow earlier in the same stack: Rebalance sizes against the value that includes it
    flow = None
    if not node["fi"] and rng.random() < 0.25:
        flow = rng.choice([0.25, 0.1, -0.1, -0.3, 1.0])        # as a fraction of the node's value before the flow
    return {"spec": spec, "nops": nops, "path": path, "targets": [[i, w] for i, w in zip(idxs, ws)], "cash": cash,
            "notional": notional, "exact": exact, "flow": flow}


def leaves(bt, n):
    return [m for m in n.members if isinstance(m, bt.core.SecurityBase)]


def run_case(ctx, bt, case, collected, replaying=False):
    from ..engine_run import run_history_observed
    spec = case["spec"]
    try:
        steps, root, dates = run_history_observed(bt, spec, ctx.rng, case["nops"], [], None)
    except Exception as e:  # noqa
        ctx.count("prior-raised:" + E.classify_exc(e))
        return
    if steps and "err" in steps[-1]:
        ctx.count("prior-ended-in-error")
        return
    if isinstance(root.now, int) and root.now == 0:
        return
    try:
        root.update(root.now)
        node = E.node_at(root, case["path"])
        kids = node._childrenv
        V0 = node.value
        N0 = node.notional_value
    except Exception as e:  # noqa
        ctx.count("prior-raised:" + E.classify_exc(e))
        return
    if E.has_nan_state(E.snap_world(bt, root)) or root.bankrupt:
        ctx.count("prior-unusable")
        return
    for s in leaves(bt, node):
        if s._price != s._price or s._price <= 0:
            ctx.count("prior-unusable:missing-price")
            return
    for m in node.members:
        if isinstance(m, bt.core.StrategyBase):
            gross = abs(m._capital) + sum(abs(k._value) for k in m._childrenv)
            if gross > 0 and m._value != 0 and abs(m._value) < 1e-6 * gross:
                ctx.count("prior-unusable:ill-conditioned (value is cancellation noise of a large gross)")
                return
    if case.get("flow") is not None:
        amount = float(case["flow"]) * V0
        try:
            bt.algos.CapitalFlow(amount)(node)
        except Exception as e:  # noqa
            ctx.count("prior-raised:flow:" + E.classify_exc(e))
            return
        ctx.count("rebalance-after-capital-flow")
        V0 = V0 + amount        # (not read back: a read would refresh the tree for the algo under test)
    names = [k.name for k in kids]
    weights = {names[i]: w for i, w in case["targets"]}
    node.temp = {"weights": dict(weights)}
    if case["cash"] is not None:
        node.temp["cash"] = case["cash"]
    if case["notional"] is not None:
        node.temp["notional_value"] = case["notional"]
    pre = E.snap_world(bt, root)
    try:
        pre_kids = {k.name: (k.value, k.weight, k.notional_value) for k in kids}
    except Exception as e:  # noqa
        ctx.count("prior-raised:" + E.classify_exc(e))      # (the refresh after the flow meets a zero-base node: not a usable prior)
        return
    pre_gk = {k.name: {g.name: (g._value, g._weight) for g in k._childrenv} for k in kids if not isinstance(k, bt.core.SecurityBase)}
    fees0 = sum(float(n._last_fee) for n in root.members if isinstance(n, bt.core.StrategyBase))
    bo0 = sum(float(s._bidoffer_paid) for s in leaves(bt, root))
    op = {"k": "rebal", "path": case["path"], "targets": case["targets"], "cash": case["cash"], "notional": case["notional"]}
    err = None
    try:
        bt.algos.Rebalance()(node)
    except Exception as e:  # noqa
        err = E.classify_exc(e)
    shape = (G and __import__("harness.engine_run", fromlist=["tree_shape"]).tree_shape(spec["tree"]), len(case["path"]), len(case["targets"]),
             any(w < 0 for _, w in case["targets"]), case["cash"] is not None, spec["integer"], spec["comm"][0],
             any(not isinstance(kids[i], bt.core.SecurityBase) for i, _ in case["targets"]), all(abs(v[0]) < 1e-12 for v in pre_kids.values()),
             err or "ok")
    ctx.classes.add(shape)
    if err is not None:
        collected.append((case, {"pre": pre, "op": op, "err": err}))
        ctx.count("rebalance-raised:" + err)
        return
    post = E.snap_world(bt, root)
    E.fill_paper(pre["root"], post["root"])
    collected.append((case, {"pre": pre, "op": op, "post": post}))
    ctx.count("rebalance-ok")
    if E.has_nan_state(post):
        return
    # ------------------------------------------------------------ monitor
    rd = {"case": case}
    fi = bool(node.fixed_income)
    c = case["cash"] or 0.0
    V = node.value
    fees = sum(float(n._last_fee) for n in root.members if isinstance(n, bt.core.StrategyBase)) - fees0
    bo = sum(float(s._bidoffer_paid) for s in leaves(bt, root)) - bo0
    costs = abs(fees) + abs(bo)
    for i, k in enumerate(kids):
        if i in [t for t, _ in case["targets"]]:
            continue
        open_pos = [s for s in leaves(bt, k) if s.position != 0]
        if open_pos and not (fi and not isinstance(k, bt.core.SecurityBase)):
            key = "C06/non-target-open" + (":zero-value" if abs(pre_kids[k.name][0]) == 0.0 else "")
            if fi and pre_kids[k.name][2] == 0.0 and type(k).__name__ in ("HedgeSecurity", "CouponPayingHedgeSecurity"):
                key = "C06/non-target-open:hedge-zero-notional"   # Rebalance of a fixed-income strategy tests the notional, and a hedge's notional is 0 by definition
            ctx.violation(key, "non-target child %s still holds %r after Rebalance" % (k.name, [(s.name, s.position) for s in open_pos]), rd)
            return
    if fi:
        B = case["notional"] if case["notional"] is not None else N0
        for i, w in case["targets"]:
            k = kids[i]
            if isinstance(k, bt.core.SecurityBase) and k.fixed_income and type(k).__name__ in ("FixedIncomeSecurity", "CouponPayingSecurity"):
                want = w * B
                got = k.notional_value
                unit = 1.0 if spec["integer"] else 0.0
                if abs(got - want) > unit + 1e-9 * max(1.0, abs(want), abs(got)):
                    ctx.violation("C06/fi-target-missed", "FI child %s notional %r != w*base = %r*%r" % (k.name, got, w, B), rd)
                    return
        return
    if abs(V0) < 1e-9:
        return
    for i, w in case["targets"]:
        k = kids[i]
        want = (1 - c) * w * V0
        got = k.value
        if case["exact"]:
            slack = 1e-9 * max(1.0, abs(V0), abs(want), abs(got))
        else:
            units = sum(abs(s._price * s.multiplier) for s in leaves(bt, k))
            # "one trading unit plus costs": the costs paid, and the cost the next unit would have carried (the sizing rule stops
            # when one more unit INCLUDING its commission and half-spread no longer fits)
            fn = root.commission_fn if hasattr(root, "commission_fn") else None
            marginal = 0.0
            for sx in leaves(bt, k):
                pm = abs(sx._price * sx.multiplier)
                try:
                    marginal += abs(sx.parent.commission_fn(1.0, pm)) + abs(0.5 * (sx._bidoffer if sx._bidoffer_set and sx._bidoffer == sx._bidoffer else 0.0) * sx.multiplier)
                except Exception:
                    pass
            slack = units + costs + marginal + 1e-9 * max(1.0, abs(V0))
        if abs(got - want) > slack:
            key = "C06/target-missed" + (":cash" if case["cash"] is not None else "") + (":sub-strategy" if not isinstance(k, bt.core.SecurityBase) else "")
            ctx.violation(key, "child %s value %r after Rebalance, target (1-%r)*%r*%r = %r (prior weight %r, slack %r)"
                          % (k.name, got, c, w, V0, want, pre_kids[k.name][1], slack), rd)
            return
        if case["exact"] and not isinstance(k, bt.core.SecurityBase) and abs(V0) > 1e-9:
            amount = ((1 - c) * w - pre_kids[k.name][1]) * V0
            if abs(w) >= 1e-16:
                for g in k._childrenv:
                    gv0, gw0 = pre_gk[k.name][g.name]
                    exp = gv0 + amount * gw0
                    if abs(g.value - exp) > 1e-9 * max(1.0, abs(V0), abs(exp)):
                        ctx.violation("C06/sub-strategy-spread", "grandchild %s>%s value %r, expected prior %r + %r*weight %r = %r"
                                      % (k.name, g.name, g.value, gv0, amount, gw0, exp), rd)
                        return
    if case["exact"]:
        want_cash = V0 - sum((1 - c) * w * V0 for _, w in case["targets"])
        got_cash = node.capital
        if abs(got_cash - want_cash) > 1e-9 * max(1.0, abs(V0)):
            ctx.violation("C06/cash-remainder" + (":cash" if case["cash"] is not None else ""),
                          "cash %r after Rebalance, expected remainder %r of value %r" % (got_cash, want_cash, V0), rd)


def over_time(ctx, bt, n_cases):
    """RebalanceOverTime: n equal steps on constant prices, fractional, no costs -> the Rebalance targets"""
    import pandas as pd
    for _ in range(n_cases):
        n = ctx.rng.randint(1, 5)
        k = ctx.rng.randint(1, 3)
        names = ["aa", "bb", "cc"][:k]
        prices = {nm: float(ctx.rng.choice([10, 25, 40.5, 100])) for nm in names}
        w = {}
        tot = 0.0
        for nm in names:
            x = ctx.rng.choice([0.25, 0.5, -0.25, 0.125])
            if tot + abs(x) <= 1:
                w[nm] = x
                tot += abs(x)
        prior = {nm: ctx.rng.choice([0.0, 0.1, -0.2, 0.3]) for nm in names}
        for nm in names:
            # a held child that already sits exactly on its target (flat prices, re-arming with the weights just reached)
            if nm in w and ctx.rng.random() < 0.3:
                prior[nm] = w[nm]
        case = {"mode": "over-time", "n": n, "prices": prices, "w": w, "prior": prior}
        ctx.evaluations += 1
        run_over_time(ctx, bt, case)


def run_over_time(ctx, bt, case):
    import pandas as pd
    n = case["n"]
    T = n + 3
    dates = pd.date_range("2020-01-01", periods=T)
    data = pd.DataFrame({k: [v] * T for k, v in case["prices"].items()}, index=dates)
    s = bt.Strategy("s", children=list(case["prices"]))
    s.use_integer_positions(False)
    s.setup(data)
    s.adjust(100000.0)
    s.update(dates[0])
    for nm, pw in case["prior"].items():
        if pw:
            s.rebalance(pw, nm)
    s.update(dates[0])
    algo = bt.algos.RebalanceOverTime(n=n)
    w0 = {nm: (s.children[nm].weight if nm in s.children else 0.0) for nm in case["prices"]}
    for i in range(n):
        s.update(dates[i + 1])
        s.temp = {"weights": dict(case["w"])} if i == 0 else {}
        algo(s)
        # n EQUAL steps: after step i+1 every targeted child stands at prior + (i+1)/n of the way (constant prices, no costs, fractional)
        for nm, want in case["w"].items():
            got = s.children[nm].weight if nm in s.children else 0.0
            exp = w0[nm] + (want - w0[nm]) * (i + 1) / n
            if abs(got - exp) > 1e-9:
                ctx.violation("C06/over-time-step", "RebalanceOverTime(n=%d): after step %d %s has weight %r, an equal step from %r towards %r gives %r"
                              % (n, i + 1, nm, got, w0[nm], want, exp), case)
                return
    V = s.value
    ctx.classes.add(("over-time", n, len(case["w"]), tuple(sorted(case["prior"].values()))))
    for nm in case["prices"]:
        want = case["w"].get(nm, None)
        if want is None:
            continue
        got = s.children[nm].weight if nm in s.children else 0.0
        if abs(got - want) > 1e-9:
            ctx.violation("C06/over-time-missed", "RebalanceOverTime(n=%d): %s weight %r after n steps, target %r (prior %r)" % (n, nm, got, want, case["prior"][nm]), case)
            return


def compare_model(ctx, bt, collected, name):
    cfg = E.live_cfg(bt)
    lines = []
    for case, st in collected:
        op = st["op"]
        line = "step %s %s rebal %s %s %s %s" % (
            E.ser_cfg(cfg), E.ser_world(st["pre"]), E.ser_path(op["path"]),
            " ".join([str(len(op["targets"]))] + ["%d %s" % (i, E.tF(w)) for i, w in op["targets"]]),
            E.tO(op["cash"]), E.tO(op["notional"]))
        lines.append(line)
    outs = leanrun.run_lines(lines)
    nd = 0
    for (case, st), o in zip(collected, outs):
        tag, val = E.parse_answer(o)
        detail = None
        if "err" in st:
            if st["err"].startswith("PaperRun"):
                continue
            if not (tag == "err" and val == st["err"]):
                detail = {"kind": "error-kind", "real": st["err"], "model": val if tag == "err" else "ok"}
        elif tag != "ok":
            if not (val == "NanData" and E.has_nan_state(st["post"])):
                detail = {"kind": "model-raises", "model": val[:100]}
        else:
            c = E.cmp_world(st["post"], val)
            if c.diffs:
                detail = {"kind": "state", "diffs": c.diffs[:4]}
        if detail:
            nd += 1
            ctx.disagreement("corr:rebalance-algo:%s" % detail["kind"], detail, {"case": case})
    ctx.protocols.append((name, len(collected), nd))


def corpus():
    import glob, json, os
    here = os.path.dirname(os.path.dirname(os.path.dirname(os.path.abspath(__file__))))
    out = []
    for f in sorted(glob.glob(os.path.join(here, "corpus", "C06_*.json"))):
        out += json.load(open(f))
    return out


def run(ctx, bt, n=None, name="rebalance-algo"):
    collected = []
    for case in corpus():
        ctx.evaluations += 1
        run_case(ctx, bt, copy.deepcopy(case), collected)
    for _ in range(n or ctx.scale(260, 4000)):
        case = gen_case(ctx.rng)
        ctx.evaluations += 1
        if len(ctx.samples) < 2:
            ctx.sample({"tree": case["spec"]["tree"], "path": case["path"], "targets": case["targets"], "cash": case["cash"], "notional": case["notional"]})
        run_case(ctx, bt, case, collected)
    # parents rotating away from a sub-strategy (generated after the main family, whose random stream is left as it was)
    for _ in range(n or ctx.scale(260, 4000)):
        flavour = "drop" if _ % 2 == 0 else "fund"
        case = gen_case(ctx.rng, rotate=flavour)
        ctx.evaluations += 1
        ctx.count("cases:parent-of-sub-strategies:" + flavour)
        run_case(ctx, bt, case, collected)
    compare_model(ctx, bt, collected, name)
    over_time(ctx, bt, ctx.scale(40, 600))
    if name == "rebalance-algo":
        # Rebalance inside complete backtests whose data contain a price that drops to exactly zero while the name is held, most stacks
        # carrying CloseDead before Rebalance (which cannot allocate at a zero price): the real run against the whole-program model
        from .. import whole_run as W
        W.whole_run_protocol(ctx, bt, ctx.scale(30, 500), "whole-run-x[C06]:close-dead",
                             make_spec=lambda rng: W.gen_spec_x(rng, raising=True, dead=True), extended=True)


def search(ctx, bt):
    run(ctx, bt, ctx.scale(1200, 8000), "rebalance-algo:search")


def replay(bt, data, ctx):
    case = data["case"]
    if "case" in case:
        case = case["case"]
    if case.get("mode") == "over-time":
        return run_over_time(ctx, bt, case)
    collected = []
    run_case(ctx, bt, case, collected, True)
    compare_model(ctx, bt, collected, "rebalance-algo")
