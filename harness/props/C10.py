"""C10 well-formed runs complete with finite results, ill-formed states raise: generated well-formed backtests (every report
accessor exercised, finiteness of every recorded series), one generator per enumerated ill-formed class, and ok/error agreement
of the Lean engine model with the real code on an ill-formed stream of engine histories."""
import json
import os

import numpy as np
import pandas as pd

from .. import engine as E
from .. import gen_runs as R
from ..engine_run import run_engine_protocol
from . import C05 as A
from . import C17 as FI

RULE = ("well-formed generated backtests (flat/nested, stock-algo stacks, commission family, spreads, integer/fractional, fixed-income "
        "programs) must complete and record only finite numbers, all report accessors included; each enumerated ill-formed class must raise; "
        "engine histories with missing prices: model and code must agree on ok / which error. "
        "distinct = program shape / (ill-formed class, variant) / (tree shape, op, outcome)")
ASSUMPTIONS = ["library compatibility (pandas/numpy actually installed) is a runtime fact: carried by the run itself, not by a theorem",
               "statistics of ffn.PerformanceStats (may legitimately be NaN on short series) are not judged, only that computing them does not raise"]
HERE = os.path.dirname(os.path.dirname(os.path.dirname(os.path.abspath(__file__))))


def finite_series(x):
    a = np.asarray(getattr(x, "values", x), dtype=float)
    return bool(np.all(np.isfinite(a)))


def reports(bt, b, ctx, rd, tag):
    """every report accessor completes; recorded node histories are finite"""
    root = b.strategy
    for n in root.members:
        names = ["_values", "_notl_values"] + (["_positions", "_outlays"] if isinstance(n, bt.core.SecurityBase) else ["_prices", "_cash", "_fees", "_all_flows"])
        for nm in names:
            s = getattr(n, nm, None)
            if s is not None and not finite_series(s):
                ctx.violation("C10/non-finite-history:" + nm, "%s: %s.%s contains a non-finite number: %r" % (tag, n.full_name, nm, list(np.asarray(s.values))[:6]), rd)
                return
    calls = [("weights", lambda: b.weights), ("security_weights", lambda: b.security_weights), ("positions", lambda: b.positions),
             ("herfindahl_index", lambda: b.herfindahl_index), ("turnover", lambda: b.turnover),
             ("Result", lambda: bt.backtest.Result(b)),
             ("Result.get_weights", lambda: bt.backtest.Result(b).get_weights()),
             ("Result.get_security_weights", lambda: bt.backtest.Result(b).get_security_weights()),
             ("Result.get_transactions", lambda: bt.backtest.Result(b).get_transactions()),
             ("strategy.outlays", lambda: root.outlays)]
    for nm, f in calls:
        try:
            v = f()
        except Exception as e:  # noqa
            k = "C10/report-raised:%s:%s" % (nm, type(e).__name__)
            if nm == "Result.get_transactions" and not any(True for s in root.members if isinstance(s, bt.core.SecurityBase)):
                k += ":no-securities"
            ctx.violation(k, "%s: report %s raised %s: %s" % (tag, nm, type(e).__name__, str(e)[:150]), rd)
            continue
        if nm in ("weights", "security_weights", "positions") and not finite_series(v.fillna(0.0) if nm != "positions" else v):
            if not np.all(np.isfinite(np.asarray(v.fillna(0.0).values, dtype=float))):
                ctx.violation("C10/non-finite-report:" + nm, "%s: %s contains inf" % (tag, nm), rd)
        if nm in ("weights", "security_weights"):
            # a weight may be undefined (NaN) only where the denominator is zero or undefined; everywhere else it is a finite number
            try:
                den = np.asarray((root.notional_values if root.fixed_income else root.values).values, dtype=float)
                arr = np.asarray(v.values, dtype=float)
                if arr.ndim == 2 and arr.shape[0] == len(den):
                    ok_rows = np.isfinite(den) & (den != 0)
                    bad = np.argwhere(~np.isfinite(arr[ok_rows]))
                    if len(bad):
                        i, j = bad[0]
                        ctx.violation("C10/non-finite-report:" + nm + ":defined-denominator",
                                      "%s: %s has a non-finite entry in column %s on a date where the root's %s is finite and non-zero"
                                      % (tag, nm, list(v.columns)[j], "notional" if root.fixed_income else "value"), rd)
            except Exception:
                pass


def run_wellformed(ctx, bt, spec):
    rd = {"kind": "wellformed", "spec": spec}
    try:
        b, data, add = R.build_backtest(bt, spec)
        b.run()
    except Exception as e:  # noqa
        kind = E.classify_exc(e)
        key = "C10/wellformed-raised:" + kind
        msg = str(e)
        if kind.startswith("PaperRun") and spec["dates"] and "price is nan as of" in msg:
            key = "C10/wellformed-raised:paper-copy-runs-on-synthetic-row"
        # the share-sizing search of SecurityBase.allocate raising inside a whole backtest: one call site, keyed by which of its
        # three raise statements fired (the per-commission witnesses of the same defect are the `alloc` corpus)
        for tag, frag in (("SizingDiverged", "has gotten bigger since last iteration"), ("SizingStuck", "root search for quantity is stuck"),
                          ("SizingIterCap", "Potentially infinite loop")):
            if frag in msg:
                key = "C10/wellformed-raised:%s:in-backtest" % tag
        import traceback as _tb
        frames = []
        ee = e
        while ee is not None:
            frames += [f.name for f in _tb.extract_tb(ee.__traceback__)]
            ee = ee.__cause__ or ee.__context__
        if isinstance(e, IndexError) or kind.endswith("IndexError"):
            if "calc_total_return" in frames:
                key = "C10/wellformed-raised:StatTotalReturn:empty-window"
        if kind.startswith("PaperRun") and "latest price is NaN" in msg and msg.rstrip(". Cannot update node value").endswith(" on 0"):
            key = "C10/wellformed-raised:shadow-copy-securities-keep-old-root"
        ctx.violation(key, "well-formed backtest raised %s: %s" % (type(e).__name__, msg[:200]), rd)
        ctx.count("wellformed-raised:" + kind)
        return
    ctx.count("wellformed-completed")
    ctx.classes.add(("wf", len(spec["tree"]["kids"]), tuple(d[0] for d in spec["tree"]["stack"]), spec["integer"], spec["comm"][0], spec["bidoffer"] is not None))
    reports(bt, b, ctx, rd, "well-formed backtest")


def run_fi(ctx, bt, spec):
    rd = {"kind": "wellformed-fi", "spec": spec}
    try:
        b = FI.build_program(bt, spec)
        b.run()
    except Exception as e:  # noqa
        ctx.violation("C10/wellformed-raised:" + E.classify_exc(e), "well-formed fixed-income backtest raised %s: %s" % (type(e).__name__, str(e)[:200]), rd)
        return
    ctx.count("wellformed-fi-completed")
    ctx.classes.add(("wf-fi", tuple(spec["kinds"]), spec["sched"], spec["integer"]))
    reports(bt, b, ctx, rd, "well-formed FI backtest")


# ------------------------------------------------------------------ ill-formed classes
def ill_cases(rng):
    """every variant of every enumerated ill-formed class (numeric details random)"""
    T = 6
    out = []
    for how in ("rebalance", "allocate", "transact"):
        for price in ("nan", "zero"):
            out.append({"cls": "trade-at-missing-price", "how": how, "price": price, "when": rng.randint(1, T - 1)})
            # ... with fractional positions (no whole-unit rounding stands between a NaN quantity and the books), as the first trade
            # ever in the name (it is created and caught up on the spot) and as a re-entry the day after the position was closed
            for state in ("first", "reentry"):
                out.append({"cls": "trade-at-missing-price", "how": how, "price": price, "when": rng.randint(2, T - 1), "integer": False, "state": state})
    for short in (False, True):
        for integer in (False, True):
            out.append({"cls": "missing-price-on-open-position", "gap": rng.randint(2, T - 1), "short": short, "integer": integer})
        out.append({"cls": "missing-coupon-on-open-position", "gap": rng.randint(2, T - 1), "short": short})
        # ... also where the open position has no weight: a hedge (notional 0 by definition) next to a bond, under either kind of parent
        for parent in ("fi", "mv"):
            out.append({"cls": "missing-coupon-on-open-position", "gap": rng.randint(2, T - 1), "short": short, "hedge": True, "parent": parent})
    out.append({"cls": "duplicate-tickers", "n": rng.randint(2, 4)})
    out.append({"cls": "zero-base-return", "fi": False, "how": "fee"})
    out.append({"cls": "zero-base-return", "fi": False, "how": "adjust-nonflow"})
    out.append({"cls": "zero-base-return", "fi": True, "how": "adjust-nonflow"})
    for depth in (1, 2):
        out.append({"cls": "fi-child-under-market-value-parent", "depth": depth})
    # ... also when the fixed-income strategy is booked while the run is going on (`parent=` + `setup_from_parent()`)
    out.append({"cls": "fi-child-under-market-value-parent", "depth": 1, "dynamic": True})
    # the custom price: above / below the market, exactly zero (as float, int, numpy scalar), negative; via the security and via ReplayTransactions
    for px in (101.0, 99.5, 0.0, 0, "np0", -1.0):
        out.append({"cls": "custom-price-without-bidoffer", "q": float(rng.choice([-1, 1]) * rng.randint(1, 9)), "px": px, "via": "security"})
    out.append({"cls": "custom-price-without-bidoffer", "q": float(rng.randint(1, 9)), "px": 0.0, "via": "replay"})
    out.append({"cls": "custom-price-without-bidoffer", "q": float(rng.randint(1, 9)), "px": 105.0, "via": "replay"})
    return out


def run_ill(ctx, bt, c):
    """returns True when an error was raised"""
    cls = c["cls"]
    T = 6
    dates = pd.date_range("2021-03-01", periods=T)
    core = bt.core
    a = bt.algos
    raised = None
    nan_recorded = False
    try:
        if cls == "trade-at-missing-price":
            px = [10.0 + i for i in range(T)]
            bad = np.nan if c["price"] == "nan" else 0.0
            data = pd.DataFrame({"x": px, "y": [20.0] * T}, index=dates)
            data.loc[dates[c["when"]], "x"] = bad
            s = core.Strategy("s", children=["x", "y"])
            if "integer" in c:
                s.use_integer_positions(c["integer"])
            s.setup(data)
            s.adjust(10000.0)
            s.update(dates[0])
            if c.get("state") == "reentry":
                s.update(dates[c["when"] - 1])
                s.allocate(1000.0, "x")
                s.update(dates[c["when"] - 1])
                s.close("x")
                s.update(dates[c["when"] - 1])
            s.update(dates[c["when"]])
            if c["how"] == "rebalance":
                s.rebalance(0.5, "x")
            elif c["how"] == "allocate":
                s.allocate(1000.0, "x")
            else:
                s.transact(10.0, "x")
            s.update(dates[c["when"]])
            nan_recorded = not finite_series(s._values) or not np.isfinite(s._capital)
        elif cls == "missing-price-on-open-position":
            px = [10.0 + i for i in range(T)]
            data = pd.DataFrame({"x": px}, index=dates)
            data.loc[dates[c["gap"]], "x"] = np.nan
            s = core.Strategy("s", children=["x"])
            s.use_integer_positions(c["integer"])
            s.setup(data)
            s.adjust(10000.0)
            s.update(dates[0])
            s.rebalance(-0.5 if c["short"] else 0.5, "x")
            for d in dates[1:]:
                s.update(d)
            nan_recorded = not finite_series(s._values)
        elif cls == "missing-coupon-on-open-position":
            data = pd.DataFrame({"x": [100.0] * T}, index=dates)
            cp = pd.DataFrame({"x": [0.5] * T}, index=dates)
            cp.loc[dates[c["gap"]], "x"] = np.nan
            if c.get("hedge"):
                data["y"] = 50.0
                cp["y"] = 0.25
                kids = [core.CouponPayingSecurity("y"), core.CouponPayingHedgeSecurity("x")]
                s = (bt.FixedIncomeStrategy if c["parent"] == "fi" else core.Strategy)("s", children=kids)
                s.setup(data, coupons=cp)
                if c["parent"] == "mv":
                    s.adjust(100000.0)
                s.update(dates[0])
                s.transact(20.0, "y")
            else:
                s = bt.FixedIncomeStrategy("s", children=[core.CouponPayingSecurity("x")])
                s.setup(data, coupons=cp)
                s.update(dates[0])
            s.transact(-10.0 if c["short"] else 10.0, "x")
            for d in dates[1:]:
                s.update(d)
            nan_recorded = not finite_series(s._cash)
        elif cls == "duplicate-tickers":
            cols = ["x"] * c["n"] + ["y"]
            data = pd.DataFrame(np.full((T, len(cols)), 10.0), index=dates, columns=cols)
            s = bt.Strategy("s", [a.RunOnce(), a.SelectAll(), a.WeighEqually(), a.Rebalance()])
            b = bt.Backtest(s, data, progress_bar=False)
            b.run()
        elif cls == "zero-base-return":
            data = pd.DataFrame({"x": [100.0] * T}, index=dates)
            if c["fi"]:
                s = bt.FixedIncomeStrategy("s", children=[core.Security("x")])
            else:
                s = core.Strategy("s", children=["x"])
            s.setup(data)
            s.update(dates[0])
            s.update(dates[1])
            if c["how"] == "fee":
                s.set_commissions(lambda q, p: 1.0)
                s.transact(1.0, "x")
            else:
                s.adjust(5.0, flow=False)
            s.update(dates[1])
            _ = s.price
        elif cls == "fi-child-under-market-value-parent":
            data = pd.DataFrame({"x": [100.0] * T}, index=dates)
            if c.get("dynamic"):
                class _LateFI(bt.Strategy):        # what FixedIncomeStrategy is, with the `parent=` keyword of Strategy
                    def __init__(self, name, algos=None, children=None, parent=None):
                        super(_LateFI, self).__init__(name, algos=algos, children=children, parent=parent)
                        self._fixed_income = True
                s = bt.Strategy("s", children=["x"])
                s.setup(data)
                s.adjust(10000.0)
                s.update(dates[0])
                s.update(dates[1])
                late = _LateFI("f", children=[core.Security("x")], parent=s)
                late.setup_from_parent()
                s.rebalance(0.5, "f")
                s.update(dates[1])
            else:
                kid = bt.FixedIncomeStrategy("f", children=[core.Security("x")])
                if c["depth"] == 2:
                    kid = bt.Strategy("mid", children=[kid])
                s = bt.Strategy("s", children=[kid])
                s.setup(data)
        elif cls == "custom-price-without-bidoffer":
            data = pd.DataFrame({"x": [100.0] * T}, index=dates)
            s = core.Strategy("s", children=[core.Security("x")])
            s.setup(data)
            s.adjust(1000.0)
            s.update(dates[0])
            px = c.get("px", 101.0)
            px = np.float64(0.0) if px == "np0" else px
            if c.get("via") == "replay":
                tx = pd.DataFrame({"price": [px], "quantity": [c["q"]]}, index=pd.MultiIndex.from_tuples([(dates[0], "x")], names=["Date", "Security"]))
                s = core.Strategy("s", children=[core.Security("x")])
                s.setup(data, txs=tx)
                s.adjust(1000.0)
                s.update(dates[0])
                try:
                    a.ReplayTransactions("txs")(s)
                except (TypeError, KeyError, AttributeError):
                    raise AssertionError("harness: ReplayTransactions call is malformed")
            else:
                s.children["x"].transact(c["q"], price=px)
    except Exception as e:  # noqa
        raised = type(e).__name__ + ":" + E.classify_exc(e)
    ctx.count("ill-formed:%s:%s" % (cls, "raised" if raised else "silent"))
    ctx.classes.add(("ill", cls, tuple(sorted((k, str(v)) for k, v in c.items() if k != "cls")), bool(raised)))
    if not raised:
        key = "C10/ill-formed-not-refused:" + cls
        if cls == "trade-at-missing-price":
            key += ":%s:%s" % (c["how"], c["price"])
        ctx.violation(key, "ill-formed situation %r completed without an error (non-finite numbers recorded: %s)" % (c, nan_recorded),
                      {"kind": "ill", "case": c})
    return bool(raised)


def corpus():
    p = os.path.join(HERE, "corpus", "C10_witnesses.json")
    return json.load(open(p)) if os.path.exists(p) else []


def run_alloc_witness(ctx, bt, case):
    """a single allocate with a sane commission on ordinary numbers must not raise"""
    try:
        root, sec, dates = A.build(bt, case)
        sec.allocate(case["amount"])
    except Exception as e:  # noqa
        kind = E.classify_exc(e)
        ctx.violation("C10/wellformed-raised:%s:commission-kind-%d%s" % (kind, case["comm"][0], ":spread" if case["bidoffer"] else ""),
                      "allocate(%r) at price %r with commission %r spread %r raised %s" % (case["amount"], case["price"], case["comm"], case["bidoffer"], kind),
                      {"kind": "alloc", "case": case})


def run(ctx, bt, scale=1):
    for case in corpus():
        ctx.evaluations += 1
        run_alloc_witness(ctx, bt, case)
    pp = os.path.join(HERE, "corpus", "C10_paper_synthetic_row.json")
    if os.path.exists(pp):
        for sp in json.load(open(pp)):
            ctx.evaluations += 1
            run_wellformed(ctx, bt, sp)
    pp = os.path.join(HERE, "corpus", "C10_sizing_in_backtest.json")
    if os.path.exists(pp):
        for sp in json.load(open(pp)):
            ctx.evaluations += 1
            run_wellformed(ctx, bt, sp)
    pp = os.path.join(HERE, "corpus", "C10_momentum_empty_window.json")
    if os.path.exists(pp):
        for sp in json.load(open(pp)):
            ctx.evaluations += 1
            run_wellformed(ctx, bt, sp)
    pp = os.path.join(HERE, "corpus", "C10_shadow_copy_root.json")
    if os.path.exists(pp):
        for sp in json.load(open(pp)):
            ctx.evaluations += 1
            run_wellformed(ctx, bt, sp)
    for _ in range(ctx.scale(90, 2500) * scale):
        nested = ctx.rng.random() < 0.35
        spec = R.gen_run_spec(ctx.rng, nested=nested, calendar_children=ctx.rng.random() < 0.7)
        ctx.evaluations += 1
        if len(ctx.samples) < 2:
            ctx.sample({"tree": spec["tree"], "integer": spec["integer"], "comm": spec["comm"]})
        run_wellformed(ctx, bt, spec)
    for _ in range(ctx.scale(25, 600) * scale):
        ctx.evaluations += 1
        run_fi(ctx, bt, FI.gen_program(ctx.rng))
    # programs whose children are Security objects constructed up front (not strings created on first use), nested to depth 2,
    # with and without bid/offer data: completed by the real code, and executed end to end by the model (`whole-run`)
    from .. import whole_run as W
    for _ in range(ctx.scale(30, 600) * scale):
        ctx.evaluations += 1
        run_wellformed(ctx, bt, W.gen_spec(ctx.rng, depth3=ctx.rng.random() < 0.2))
    for _ in range(ctx.scale(30, 600) * scale):
        ctx.evaluations += 1
        run_wellformed(ctx, bt, W.gen_spec_x(ctx.rng))
    if scale == 1:
        W.whole_run_protocol(ctx, bt, ctx.scale(25, 500), "whole-run[C10]")
        W.whole_run_protocol(ctx, bt, ctx.scale(25, 500), "whole-run-x[C10]:selection-sequences", extended=True)
    for _ in range(ctx.scale(2, 30) * scale):
        for c in ill_cases(ctx.rng):
            ctx.evaluations += 1
            run_ill(ctx, bt, c)
    # ok / error agreement of the model on an ill-formed stream (missing prices, zero prices)
    def illform(rng, spec):
        for t, col in spec["prices"].items():
            for i in range(1, len(col)):
                if rng.random() < 0.12:
                    col[i] = None
    run_engine_protocol(ctx, bt, ctx.scale(70, 800) * scale, [], {"stale", "bankrupt"}, None, spec_mutator=illform, corr_name="step[C10]:ok-or-which-error")


def search(ctx, bt):
    run(ctx, bt, 4)


def replay(bt, data, ctx):
    case = data["case"]
    k = case.get("kind")
    if k == "wellformed":
        run_wellformed(ctx, bt, case["spec"])
    elif k == "wellformed-fi":
        run_fi(ctx, bt, case["spec"])
    elif k == "ill":
        run_ill(ctx, bt, case["case"])
    elif k == "alloc":
        run_alloc_witness(ctx, bt, case["case"])
    else:
        from ..engine_run import run_history_observed, model_compare
        spec = case["spec"]
        steps, root, dates = run_history_observed(bt, spec, ctx.rng, len(spec["ops"]), [], ctx)
        model_compare(ctx, bt, [(spec, i, st) for i, st in enumerate(steps)], {"stale", "bankrupt"}, None, "step[C10]")
