"""C19 tree wiring, universe scoping, lazy children.

(a) `wiring` correspondence: generated construction scripts executed on the real bt objects and by the Lean model
    (`Bt.Wiring`, driver request `wiring`): the complete wired structure is compared token for token.
(b) paired whole runs: one generated program with its securities named by strings (created on first use), constructed up
    front, and with the children omitted altogether; histories compared per node name.
(c) a monitor written from the property text, evaluated on the real objects (scripts and finished backtests), plus an
    eager twin of every script (strings replaced by constructed securities) compared as a name-indexed map.
(d) lazy / eager twins of generated trading scripts in which, between setup and the first use of string-named securities, dynamic
    sub-strategies are attached with parent= and bound with setup_from_parent(**overrides) (`dyn_protocol`): everything the two
    trees record (positions, cash, bid/offer paid, values, prices, outlays, coupons, transactions) is compared per node name.
"""
import copy
import gc
import glob
import json
import os
import signal

import numpy as np
import pandas as pd

from .. import engine as E
from .. import gen_runs as R
from .. import leanrun

RULE = ("construction scripts: a root strategy (plain / fixed income) with children given as list, dict or not at all, to depth 4; children = strings, "
        "constructed securities of the five classes (lazy_add on/off), sub-strategies, the same object passed twice (deep-copy isolation); then operations: "
        "children attached later with parent= (before and after setup, the latter followed by setup_from_parent), use_integer_positions / set_commissions at "
        "the root or at a sub-strategy before and after setup, bt.Backtest(...) (deep copy + both settings), setup on a generated frame (random subset and "
        "order of the tickers: declared tickers missing from the data, undeclared data columns), updates, first use of declared / lazy / eager / undeclared / "
        "data-less names through allocate(0, child) and transact(0, child); separate ill-formed stream: every ordered pair of duplicate sibling kinds "
        "(string, security, lazy security, strategy; in lists and through parent=), fixed-income strategy under a plain one. "
        "corpus first: regression cases of the three repaired defects (eeb6870, 75f3a49, 11b9598) and witnesses of the two known findings. "
        "distinct = (set of node kinds with children mode, depth, set of operation kinds at the top / below and before / after setup, shared objects, "
        "outcome). "
        "whole runs: gen_runs programs (flat and nested) run lazy / eager / children omitted. "
        "dynamic-override twins: hand-driven trading scripts (plain / fixed-income root, optional static sub-strategy, children as strings / lazy_add "
        "objects of the five classes / omitted; setup with bidoffer / coupons / cost_long / cost_short / free keys; adjust, update, allocate, rebalance, "
        "transact, close at the root and below) with one or two dynamic sub-strategies attached with parent= at the root or the sub-strategy and bound "
        "with setup_from_parent(**overrides) (replacing / adding bidoffer, coupons, holding costs, free keys); some declared names are first used only "
        "after the binding; run lazy and with every security constructed up front.")
ASSUMPTIONS = [
    "object references are modelled relative to the structure (parent = self or structural parent, root = an ancestor or 'outside'); the harness "
    "reports any other target as a mismatch",
    "wiring scripts trade nothing (first use = allocate/transact of 0), so `now` / `_needupdate` of securities are those of zero positions",
    "setup is given coupons for every name used, so CouponPayingSecurity.setup does not raise; data columns are distinct",
    "deepcopy is a value copy (checked by the harness on the object passed to bt.Backtest and on objects passed twice)",
    "a script that does not finish within 10 s and, run again, within 30 s on the real code (normal: 0.05 s) is reported as a violation (deep "
    "copies of stale trees); after three of them generation stops",
    "whole-run pairs: children order differs between lazy and eager trees, sums differ by rounding noise: whole-unit positions are compared "
    "exactly, fractional positions, values and prices to 1e-9 relative",
    "dynamic-override twins: prices, spreads, coupons, amounts and weights are dyadic so that sums do not depend on the order of the children; "
    "when both runs raise the same error at the same operation the histories are compared after the last completed update before it (a tree left "
    "in the middle of an update depends on the order of its children)",
]

class ScriptTimeout(BaseException):
    """not an Exception: must not be mistaken for something the code under test raised"""


class Budget:
    """wall-clock budget for one script on the real code (a normal script takes ~0.05 s): a construction that keeps
    copying stale trees must end as a violation, not as a hung check"""
    tripped = 0

    def __init__(self, seconds):
        self.seconds = seconds

    def _handler(self, *a):
        raise ScriptTimeout()

    def __enter__(self):
        self.old = signal.signal(signal.SIGALRM, self._handler)
        signal.setitimer(signal.ITIMER_REAL, self.seconds)
        return self

    def __exit__(self, *a):
        signal.setitimer(signal.ITIMER_REAL, 0)
        signal.signal(signal.SIGALRM, self.old)
        return False


TICK = ["aa", "bb", "cc", "dd", "ee", "ff"]
SNAMES = ["s1", "s2", "s3", "s4", "s5", "s6"]
KINDS = ["Security", "FixedIncomeSecurity", "CouponPayingSecurity", "HedgeSecurity", "CouponPayingHedgeSecurity"]
NROWS = 5
DATES = [str(d.date()) for d in pd.date_range("2021-03-01", periods=NROWS, freq="D")]


def _c1(q, p):
    return 1.0


def _c2(q, p):
    return 0.5 * abs(q)


def _c3(q, p):
    return 0.001 * abs(q) * p


COMMS = {1: _c1, 2: _c2, 3: _c3}


# ------------------------------------------------------------------ generation
def gen_kids(rng, depth, maxdepth, fi_parent, used_s, ill, declare_p=0.85):
    """returns (mode, kids) with kids a list of specs (list mode) or [key, spec] pairs (dict mode)"""
    if rng.random() > declare_p:
        return rng.choice(["N", "L"]), []
    mode = "D" if rng.random() < 0.3 else "L"
    n = rng.randint(1, 4)
    ticks = rng.sample(TICK, min(len(TICK), n + 1))
    kids = []
    for j in range(n):
        r = rng.random()
        if r < 0.22 and depth < maxdepth:
            nm = SNAMES[len(used_s) % len(SNAMES)] + ("" if len(used_s) < len(SNAMES) else str(len(used_s)))
            used_s.append(nm)
            fi = bool(fi_parent and rng.random() < 0.5)
            if ill and rng.random() < 0.15:
                fi = True
            kmode, kk = gen_kids(rng, depth + 1, maxdepth, fi, used_s, ill)
            kids.append(["T", int(fi), nm, kmode, kk])
        elif r < 0.6:
            kids.append(["s", ticks[j]])
        else:
            kids.append(["S", rng.randint(0, 4) if rng.random() < 0.6 else 0, ticks[j], int(rng.random() < 0.3)])
    if mode == "D":
        # keys are the names; the objects' own names are something else (renaming), string values are ignored
        out = []
        for k in kids:
            key = k[2] if k[0] != "s" else k[1]
            inner = copy.deepcopy(k)
            if rng.random() < 0.6:
                if inner[0] == "s":
                    inner[1] = rng.choice(["", "zz", key])
                else:
                    inner[2] = rng.choice(["tmpl", "x", key])
            out.append([key, inner])
        return mode, out
    return mode, kids


def strat_paths(spec, prefix=()):
    """paths (tuples of child names below the top) of the realised strategies of a spec"""
    out = [prefix]
    mode, kids = spec[3], spec[4]
    for k in kids:
        key, s = (k[0], k[1]) if mode == "D" else (None, k)
        if s[0] == "T":
            nm = key if key is not None else s[2]
            out += strat_paths(s, prefix + (nm,))
    return out


def declared_at(spec):
    """{path: {'any': bool, 'tickers': [names], 'strats': [names]}} from the construction text alone"""
    out = {}

    def walk(s, prefix):
        mode, kids = s[3], s[4]
        ticks, strats = [], []
        for k in kids:
            key, c = (k[0], k[1]) if mode == "D" else (None, k)
            if c[0] == "T":
                nm = key if key is not None else c[2]
                strats.append(nm)
                walk(c, prefix + (nm,))
            else:
                nm = key if key is not None else (c[1] if c[0] == "s" else c[2])
                if nm not in ticks:
                    ticks.append(nm)
        out[prefix] = {"any": len(kids) >= 1, "tickers": ticks, "strats": strats}

    walk(spec, ())
    return out


def gen_script(rng, ill=False):
    fi_root = rng.random() < 0.2
    used_s = []
    maxdepth = rng.choice([1, 2, 3, 3])
    mode, kids = gen_kids(rng, 0, maxdepth, fi_root, used_s, ill, declare_p=0.9)
    spec = ["T", int(fi_root), "top", mode, kids]
    paths = strat_paths(spec)
    cols = rng.sample(TICK, rng.randint(2, len(TICK)))
    ops = []
    fresh = [0]

    def new_sname():
        fresh[0] += 1
        return "t%d" % fresh[0]

    def settings(n):
        for _ in range(n):
            p = list(rng.choice(paths)) if rng.random() < 0.35 else []
            if rng.random() < 0.5:
                ops.append(["I", p, int(rng.random() < 0.5)])
            else:
                ops.append(["C", p, rng.randint(1, 3)])

    def attach(after_setup):
        p = rng.choice(paths)
        nm = new_sname()
        kmode, kk = gen_kids(rng, len(p) + 1, max(maxdepth, len(p) + 1 + rng.randint(0, 1)), False, used_s, False)
        ops.append(["A", list(p), nm, kmode, kk])
        sub = ["T", 0, nm, kmode, kk]
        for q in strat_paths(sub, tuple(p) + (nm,)):
            paths.append(q)
        if after_setup:
            ops.append(["P", list(p), nm])

    # before setup
    for _ in range(rng.choice([0, 0, 1, 1, 2])):
        attach(False)
    settings(rng.choice([0, 0, 1, 2]))
    if rng.random() < 0.35:
        ops.append(["B", int(rng.random() < 0.5), rng.choice([None, 1, 2, 3])])
        if rng.random() < 0.3:
            attach(False)
    if rng.random() < 0.93:
        ops.append(["U", cols])
        row = -1
        for _ in range(rng.randint(1, 7)):
            r = rng.random()
            if r < 0.3 and row < NROWS - 1:
                row += 1
                ops.append(["D", row])
            elif r < 0.75:
                p = rng.choice(paths)
                decl = _names_at(spec, ops, p)
                cand = list(decl["tickers"]) + rng.sample(TICK, 2)
                cand = [c for c in cand if c not in decl["strats"]]
                if cand:
                    ops.append(["X", list(p), rng.choice(cand), rng.choice(["allocate", "transact"])])
            elif r < 0.87:
                settings(1)
            else:
                attach(True)
    if ill:
        make_ill(rng, spec, ops, paths)
    return {"spec": spec, "ops": ops, "share": rng.random() < 0.3}


def _names_at(spec, ops, path):
    d = declared_at(spec).get(tuple(path))
    if d is None:
        d = {"any": False, "tickers": [], "strats": []}
        for op in ops:
            if op[0] == "A":
                sub = ["T", 0, op[2], op[3], op[4]]
                dd = declared_at(sub)
                base = tuple(op[1]) + (op[2],)
                for k, v in dd.items():
                    if base + k == tuple(path):
                        d = v
    d = copy.deepcopy(d)
    for op in ops:
        if op[0] == "A" and tuple(op[1]) == tuple(path):
            d["strats"].append(op[2])
    return d


DUP_KINDS = ["str", "sec", "lazy", "strat"]


def dup_item(kind, name):
    if kind == "str":
        return ["s", name]
    if kind == "sec":
        return ["S", 0, name, 0]
    if kind == "lazy":
        return ["S", 2, name, 1]
    return ["T", 0, name, "L", [["s", "aa"]]]


def make_ill(rng, spec, ops, paths):
    """inject one ill-formed feature: a duplicate sibling pair of every ordered kind combination, a late duplicate,
    or a fixed-income strategy under a plain one"""
    r = rng.random()
    # find a list-mode strategy to inject into (dict keys cannot repeat)
    targets = []

    def walk(s):
        if s[3] != "D":
            targets.append(s)
        for k in s[4]:
            c = k[1] if s[3] == "D" else k
            if c[0] == "T":
                walk(c)

    walk(spec)
    if r < 0.6 and targets:
        t = rng.choice(targets)
        a, b = rng.choice(DUP_KINDS), rng.choice(DUP_KINDS)
        nm = rng.choice(["aa", "bb", "dup"])
        t[3] = "L"
        t[4] = [k for k in t[4] if (k[1] if k[0] == "s" else k[2]) != nm]
        t[4].insert(rng.randint(0, len(t[4])), dup_item(a, nm))
        t[4].append(dup_item(b, nm))
        if "strat" in (a, b):
            ops[:] = [o for o in ops if not (o[0] == "X" and o[2] == nm)]
    elif r < 0.85:
        # late duplicate: attach a strategy whose name is taken by a realised / declared child
        p = rng.choice(strat_paths(spec))
        decl = declared_at(spec)[tuple(p)]
        names = decl["strats"] + decl["tickers"]
        if names:
            pos = rng.randint(0, len(ops))
            while pos < len(ops) and pos > 0 and ops[pos - 1][0] == "A" and ops[pos][0] == "P":
                pos += 1
            nm = rng.choice(names)
            ops.insert(pos, ["A", list(p), nm, "L", [["s", "aa"]]])
            if any(o[0] == "U" for o in ops[:pos]):
                ops.insert(pos + 1, ["P", list(p), nm])
            # a first use addresses securities only
            ops[:] = [o for o in ops if not (o[0] == "X" and list(o[1]) == list(p) and o[2] == nm)]
    else:
        if targets:
            t = rng.choice(targets)
            t[3] = "L" if t[3] == "N" else t[3]
            t[1] = 0
            t[4].append(["T", 1, "fik", "L", [["s", "aa"]]])


# ------------------------------------------------------------------ serialisation for the Lean driver
def tok_spec(s):
    if s[0] == "s":
        return ["s", s[1] or "_"]
    if s[0] == "S":
        return ["S", str(s[1]), s[2], str(s[3])]
    return ["T", str(s[1]), s[2]] + tok_kids(s[3], s[4])


def tok_kids(mode, kids):
    if mode == "D":
        out = ["D", str(len(kids))]
        for k, c in kids:
            out += [k] + tok_spec(c)
        return out
    out = ["L", str(len(kids))]
    for c in kids:
        out += tok_spec(c)
    return out


def tok_path(p):
    return [str(len(p))] + list(p)


def tok_op(op):
    k = op[0]
    if k == "A":
        return ["A"] + tok_path(op[1]) + [op[2]] + tok_kids(op[3], op[4])
    if k == "I":
        return ["I"] + tok_path(op[1]) + [str(op[2])]
    if k == "C":
        return ["C"] + tok_path(op[1]) + [str(op[2])]
    if k == "U":
        return ["U", str(len(op[1]))] + list(op[1])
    if k == "D":
        return ["D", str(op[1])]
    if k == "X":
        return ["X"] + tok_path(op[1]) + [op[2]]
    if k == "P":
        return ["P"] + tok_path(op[1]) + [op[2]]
    if k == "B":
        return ["B", str(op[1]), "N" if op[2] is None else str(op[2])]
    raise ValueError(k)


def request(script):
    toks = ["wiring"] + tok_spec(script["spec"]) + [str(len(script["ops"]))]
    for op in script["ops"]:
        toks += tok_op(op)
    return " ".join(toks)


# ------------------------------------------------------------------ execution on the real objects
class Run:
    """one script executed on the real code"""

    def __init__(self, bt, script):
        self.bt = bt
        self.script = script
        self.root = None
        self.err = None          # (op index, kind)
        self.data = None         # the frame the tree was set up with
        self.cache = {}
        self.original = None     # object handed to bt.Backtest (deep-copy isolation)
        self.original_desc = None
        self.log = []            # per executed op: monitor hooks

    def build(self, s):
        bt = self.bt
        if s[0] == "s":
            return s[1]
        key = json.dumps(s)
        if self.script.get("share") and key in self.cache:
            return self.cache[key]      # the very same object passed again: the code must copy it
        if s[0] == "S":
            cls = getattr(bt.core, KINDS[s[1]])
            o = cls(s[2], lazy_add=bool(s[3]))
        else:
            ch = self.children(s[3], s[4])
            if s[1]:
                o = bt.FixedIncomeStrategy(s[2], [], ch)
            else:
                o = bt.Strategy(s[2], [], ch)
        self.cache[key] = o
        return o

    def children(self, mode, kids):
        if mode == "N":
            return None
        if mode == "D":
            return {k: self.build(c) for k, c in kids}
        return [self.build(c) for c in kids]

    def node(self, path):
        n = self.root
        for p in path:
            n = n.children[p]
        return n

    def frame(self, cols, index=None):
        idx = pd.DatetimeIndex(DATES) if index is None else index
        return pd.DataFrame({c: [100.0 + 3 * j + i for i in range(len(idx))] for j, c in enumerate(cols)}, index=idx, columns=list(cols))

    def kwargs(self, index):
        names = sorted(set(TICK + ["zz", "dup", "x", "tmpl", "_", ""] + SNAMES))
        return {"coupons": pd.DataFrame(0.0, index=index, columns=names)}

    def step(self, k, op):
        bt = self.bt
        kind = op[0]
        if kind == "A":
            ch = self.children(op[3], op[4])
            bt.Strategy(op[2], [], ch, parent=self.node(op[1]))
        elif kind == "I":
            self.node(op[1]).use_integer_positions(bool(op[2]))
        elif kind == "C":
            self.node(op[1]).set_commissions(COMMS[op[2]])
        elif kind == "U":
            if self.data is None:
                self.data = self.frame(op[1])
                self.kw = self.kwargs(self.data.index)
            self.root.setup(self.data, **self.kw)
        elif kind == "D":
            self.root.update(self.data.index[op[1]])
        elif kind == "X":
            n = self.node(op[1])
            if op[3] == "allocate":
                n.allocate(0.0, child=op[2])
            else:
                n.transact(0.0, child=op[2])
        elif kind == "P":
            self.node(op[1]).children[op[2]].setup_from_parent()
        elif kind == "B":
            cols = next((o[1] for o in self.script["ops"] if o[0] == "U"), TICK[:3])
            plain = self.frame(cols)
            self.original = self.root
            try:
                self.original_desc = describe(self, self.root)
            except Exception:  # noqa
                self.original_desc = None
            b = bt.Backtest(self.root, plain, integer_positions=bool(op[1]), commissions=None if op[2] is None else COMMS[op[2]],
                            additional_data=self.kwargs(plain.index), progress_bar=False)
            self.root = b.strategy
            self.data = b.data
            self.kw = b.additional_data

    def execute(self, hook=None):
        try:
            self.root = self.build(self.script["spec"])
        except Exception as e:  # noqa
            self.err = (0, classify(e))
            return self
        if hook:
            hook(self, 0, None)
        for k, op in enumerate(self.script["ops"]):
            try:
                self.step(k + 1, op)
            except Exception as e:  # noqa
                self.err = (k + 1, classify(e))
                return self
            if hook:
                hook(self, k + 1, op)
        return self


def classify(e):
    s = str(e)
    if isinstance(e, ValueError) and "already exists" in s:
        return "ChildExists"
    if isinstance(e, ValueError) and "fixed income strategy child" in s:
        return "FiUnderNonFi"
    return type(e).__name__


def comm_id(node, fn):
    for k, f in COMMS.items():
        if fn is f:
            return str(k)
    if getattr(fn, "__self__", None) is node and getattr(fn, "__func__", None) is type(node)._dflt_comm_fn:
        return "N"
    if getattr(fn, "__self__", None) is node:
        return "N"
    return "?"


def now_tok(run, now):
    if isinstance(now, int) and now == 0:
        return "N"
    try:
        return str(int(run.data.index.get_loc(now)))
    except Exception:  # noqa
        return "?%s" % now


def up_tok(n, chain):
    """how many structural levels above n (chain = [top, ..., n]) the object n.root is"""
    for k in range(len(chain)):
        if chain[len(chain) - 1 - k] is n.root:
            return str(k)
    return "X"


def describe(run, top):
    """the token list of the Lean driver's answer, read off the real objects"""
    c = run.bt.core
    out = []

    def sec(n, chain):
        par = "1" if n.parent is n else ("0" if len(chain) >= 2 and n.parent is chain[-2] else "9")
        ps = n.__dict__.get("_prices_set")
        return ["S", n.name or "_", str(KINDS.index(type(n).__name__)), str(int(bool(n.lazy_add))), str(int(bool(n.integer_positions))), par,
                up_tok(n, chain), "N" if ps is None or "data" not in n.__dict__ else str(int(bool(ps))), now_tok(run, n.now), str(int(bool(n._needupdate)))]

    def lst(xs):
        return [str(len(xs))] + [x or "_" for x in xs]

    def cols(df):
        return ["N"] if df is None else lst([str(x) for x in df.columns])

    def node(n, chain):
        if isinstance(n, c.SecurityBase):
            return sec(n, chain)
        par = "1" if n.parent is n else ("0" if len(chain) >= 2 and n.parent is chain[-2] else "9")
        t = ["T", n.name, str(int(bool(n.fixed_income))), str(int(bool(n.integer_positions))), par, up_tok(n, chain), comm_id(n, n.commission_fn),
             str(int(bool(n._original_children_are_present)))]
        t += lst(list(n._universe_tickers)) + lst(list(n._strat_children))
        pool = list(n._lazy_children.values())
        t += [str(len(pool))]
        for s in pool:
            t += sec(s, [s])
        t += cols(n.__dict__.get("_original_data")) + cols(n.__dict__.get("_universe")) + [now_tok(run, n.now), str(int(bool(n._paper_trade)))]
        p = n.__dict__.get("_paper")
        if p is None:
            t += ["0"]
        else:
            t += ["1"] + node(p, [p])
        kids = list(n.children.values())
        t += [str(len(kids))]
        for k in kids:
            t += node(k, chain + [k])
        return t

    out = node(top, [top])
    # members as the code reports them
    ids = {}

    def walk(n, path):
        ids[id(n)] = path
        for k in getattr(n, "children", {}).values():
            walk(k, path + [k.name])

    walk(top, [top.name])
    mem = top.members
    out += [str(len(mem))]
    for m in mem:
        fn = m.commission_fn if isinstance(m, c.StrategyBase) else getattr(m.parent, "commission_fn", None)
        owner = m if isinstance(m, c.StrategyBase) else m.parent
        out += ["/".join(ids.get(id(m), ["?"])), m.full_name, comm_id(owner, fn)]
    return out


def real_answer(run):
    if run.err is not None:
        return "err %d %s" % run.err
    try:
        return "ok " + " ".join(describe(run, run.root))
    except Exception as e:  # noqa
        return "unreadable %s %s" % (type(e).__name__, str(e)[:120].replace(" ", "_"))


# ------------------------------------------------------------------ the monitor (from the property text)
def struct_walk(bt, top):
    """[(node, structural path, structural parent)] following the children dicts only"""
    out = []

    def go(n, path, par):
        out.append((n, path, par))
        for k in getattr(n, "children", {}).values():
            go(k, path + [k.name], n)

    go(top, [top.name], None)
    return out


def papers_of(bt, top):
    out = []
    for n, path, par in struct_walk(bt, top):
        p = n.__dict__.get("_paper")
        if p is not None:
            out.append((n, p))
            out += papers_of(bt, p)
    return out


def mon_structure(ctx, bt, top, rd, where, is_paper=False):
    """sibling names unique; parent / root / members / full_name agree with the structure"""
    c = bt.core
    walk = struct_walk(bt, top)
    tag = ":paper-copy" if is_paper else ""
    for n, path, par in walk:
        if isinstance(n, c.StrategyBase):
            keys = list(n.children.keys())
            nm = [k.name for k in n.children.values()]
            if len(set(nm)) != len(nm) or keys != nm:
                ctx.violation("C19/siblings:names-not-unique" + tag, "%s: children keys %r, child names %r (%s)" % (n.full_name, keys, nm, where), rd)
            if [id(x) for x in n._childrenv] != [id(x) for x in n.children.values()]:
                ctx.violation("C19/siblings:childrenv-differs" + tag, "%s: _childrenv is not children.values() (%s)" % (">".join(path), where), rd)
        want_parent = n if par is None else par
        if n.parent is not want_parent:
            ctx.violation("C19/parent:not-structural-parent" + tag, "%s.parent is %r (%s)" % (">".join(path), n.parent, where), rd)
        if n.root is not top:
            ctx.violation("C19/root:" + ("paper-descendant-root-outside-copy" if is_paper else "not-the-top"),
                          "%s.root is %r (is the top: False; is the copy's top: %s) (%s)" % (">".join(path), n.root, n.root is top, where), rd)
        if n.full_name != ">".join(path):
            ctx.violation("C19/full_name:not-joined-path" + tag, "full_name %r, structural path %r (%s)" % (n.full_name, ">".join(path), where), rd)
    mem = top.members
    if [id(m) for m in mem] != [id(n) for n, _, _ in walk]:
        ctx.violation("C19/members:not-preorder" + tag, "members %r, preorder %r (%s)" % ([m.full_name for m in mem], [">".join(p) for _, p, _ in walk], where), rd)


class Decl:
    """what the construction text declared, per strategy (kept current while the script runs)"""

    def __init__(self, script):
        self.d = {k: copy.deepcopy(v) for k, v in declared_at(script["spec"]).items()}
        self.late = {}            # path -> strategies attached later

    def attach(self, op):
        base = tuple(op[1]) + (op[2],)
        for k, v in declared_at(["T", 0, op[2], op[3], op[4]]).items():
            self.d[base + k] = copy.deepcopy(v)
        self.late.setdefault(tuple(op[1]), []).append(op[2])

    def expected_columns(self, path, data_cols, skip=()):
        d = self.d[tuple(path)]
        strats = [x for x in d["strats"] + self.late.get(tuple(path), []) if x not in skip]
        if d["any"]:
            base = [c for c in data_cols if c in d["tickers"]]
        else:
            base = list(data_cols)
        for s in strats:
            if s not in base:
                base.append(s)
        return base


def mon_universe(ctx, bt, run, decl, rd, where, pending=()):
    """a strategy's universe = declared tickers (all when none were declared) in the data's order + one column per sub-strategy"""
    c = bt.core
    top = run.root
    data_cols = [str(x) for x in run.data.columns]
    for n, path, par in struct_walk(bt, top):
        if not isinstance(n, c.StrategyBase) or "_universe" not in n.__dict__:
            continue
        key = tuple(path[1:])
        if key not in decl.d:
            continue
        owed = [w for (k2, w) in pending if k2 == key]
        for obj, tag in [(n, "")] + ([(n.__dict__["_paper"], "")] if n.__dict__.get("_paper") is not None else []):
            got = [str(x) for x in obj._universe.columns]
            # a shadow copy is judged by its own structure: sub-strategies attached to the real node after the copy was made are not in it
            late = [x for x in decl.late.get(key, []) if x not in obj.children]
            want = decl.expected_columns(key, data_cols, skip=owed + late)
            if got != want:
                d = decl.d[key]
                missing = [w for w in want if w not in got]
                extra = [g for g in got if g not in want]
                strats = d["strats"] + decl.late.get(key, [])
                if not d["any"] and strats and [g for g in got if g not in strats] == [w for w in want if w not in strats] and not [e for e in extra if e not in strats]:
                    # a parent constructed without children: the columns of sub-strategies attached with parent= are not made by setup
                    # (they appear with the first update, after any column added by setup_from_parent in between)
                    k = "C19/universe:substrategy-column-missing-after-setup:childless-parent"
                elif missing and all(m in strats for m in missing) and not extra:
                    k = "C19/universe:substrategy-column-missing"
                elif extra and not missing:
                    k = "C19/universe:undeclared-column-kept"
                elif sorted(got) == sorted(want):
                    k = "C19/universe:column-order"
                else:
                    k = "C19/universe:columns-differ"
                ctx.violation(k + tag, "%s: universe columns %r, the text wants %r (declared tickers %r, any children declared: %s, sub-strategies %r, data %r) (%s)"
                              % (">".join(path), got, want, d["tickers"], d["any"], strats, data_cols, where), rd)


def mon_substrategy_column(ctx, bt, top, rd, where):
    """the sub-strategy column of the parent's universe carries the child's price index (rows up to now)"""
    c = bt.core
    for n, path, par in struct_walk(bt, top):
        if par is None or not isinstance(n, c.StrategyBase) or "_universe" not in par.__dict__ or "data" not in n.__dict__:
            continue
        if isinstance(par.now, int) and par.now == 0:
            continue
        if n.name not in par._universe.columns:
            ctx.violation("C19/universe:substrategy-column-missing-after-update", "%s has no column for its sub-strategy %s after an update (%s)" % (par.full_name, n.name, where), rd)
            continue
        col = par._universe[n.name]
        if isinstance(col, pd.DataFrame):
            ctx.violation("C19/universe:substrategy-column-duplicated", "%s has %d columns named %s" % (par.full_name, col.shape[1], n.name), rd)
            continue
        i = par.data.index.get_loc(par.now)
        a = float(col.values[i])
        b = float(n._prices.values[i])
        if not (a == b or (a != a and b != b)):
            ctx.violation("C19/universe:substrategy-column-not-child-price", "%s universe[%s] at now is %r, the child's price %r (%s)" % (par.full_name, n.name, a, b, where), rd)


def mon_settings(ctx, bt, node, what, value, rd, where, after_setup):
    """a setting pushed at `node` has reached every descendant (and the shadow copies of sub-strategies)"""
    c = bt.core

    def check(top, tag):
        for n, path, par in struct_walk(bt, top):
            if what == "integer":
                if bool(n.integer_positions) != bool(value):
                    ctx.violation("C19/settings:integer-not-reached" + tag, "%s.integer_positions is %r after use_integer_positions(%r) on %s (%s)"
                                  % (">".join(path), n.integer_positions, value, node.full_name, where), rd)
            else:
                if isinstance(n, c.StrategyBase):
                    if n.commission_fn is not value:
                        ctx.violation("C19/settings:commission-not-reached" + tag, "%s.commission_fn is not the function set on %s (%s)" % (">".join(path), node.full_name, where), rd)
                elif par is not None and n.parent.commission_fn is not value:
                    ctx.violation("C19/settings:commission-not-reached" + tag, "security %s is charged by another function than the one set on %s (%s)" % (">".join(path), node.full_name, where), rd)
    check(node, "")
    for real, p in papers_of(bt, node):
        check(p, ":paper-copy" + ("-after-setup" if after_setup else ""))


def mon_created(ctx, bt, run, parent, name, rd, where):
    """a child created on first use is wired like one declared up front"""
    ch = parent.children.get(name)
    if ch is None:
        ctx.violation("C19/lazy:not-created", "%s has no child %s after its first use (%s)" % (parent.full_name, name, where), rd)
        return
    bad = []
    if ch.parent is not parent:
        bad.append("parent")
    if ch.root is not parent.root:
        bad.append("root")
    if bool(ch.integer_positions) != bool(parent.integer_positions):
        bad.append("integer_positions %r vs parent %r" % (ch.integer_positions, parent.integer_positions))
    if "data" not in ch.__dict__:
        bad.append("not set up")
    elif not ch.data.index.equals(parent.data.index):
        bad.append("index differs from the parent's")
    if not (ch.now == parent.now):
        bad.append("now %r vs parent %r" % (ch.now, parent.now))
    if getattr(ch, "lazy_add", False):
        bad.append("lazy_add still set")
    if bad:
        ctx.violation("C19/lazy:created-child-wiring:" + bad[0].split(" ")[0], "%s>%s after first use: %s (%s)" % (parent.full_name, name, "; ".join(bad), where), rd)


def eager_twin(script):
    """every string / lazy security replaced by a security constructed up front"""
    s = copy.deepcopy(script)

    def conv(spec):
        if spec[0] == "s":
            return ["S", 0, spec[1], 0]
        if spec[0] == "S":
            return ["S", spec[1], spec[2], 0]
        return ["T", spec[1], spec[2], spec[3], [[k[0], conv(k[1])] if spec[3] == "D" else conv(k) for k in spec[4]]]

    s["spec"] = conv(s["spec"])
    for op in s["ops"]:
        if op[0] == "A":
            op[4] = [[k[0], conv(k[1])] if op[3] == "D" else conv(k) for k in op[4]]
    return s


def name_map(bt, run):
    """{full path: fields that must not depend on how the child came to exist}"""
    c = bt.core
    out = {}
    for n, path, par in struct_walk(bt, run.root):
        key = ">".join(path)
        if isinstance(n, c.SecurityBase):
            ps = n.__dict__.get("_prices_set")
            out[key] = ("sec", type(n).__name__, bool(n.integer_positions), None if "data" not in n.__dict__ else bool(ps), now_tok(run, n.now),
                        bool(n._needupdate), n.parent is par, n.root is run.root, comm_id(n.parent, n.parent.commission_fn))
        else:
            u = n.__dict__.get("_universe")
            out[key] = ("strat", type(n).__name__, bool(n.integer_positions), None if u is None else tuple(str(x) for x in u.columns), now_tok(run, n.now),
                        tuple(n._universe_tickers), tuple(n._strat_children), comm_id(n, n.commission_fn), bool(n._paper_trade))
    return out


def mon_twin(ctx, bt, script, lazy_run, rd):
    """lazy children are transparent: the same script with every security constructed up front gives, for every node the
    lazy tree has, the same wiring and fields (the eager tree may have more nodes: those never used)"""
    tw = eager_twin(script)
    if lazy_run.err is not None and lazy_run.err[1] == "Timeout":
        return "skip"
    try:
        with Budget(30.0):
            er = Run(bt, tw).execute()
    except ScriptTimeout:
        Budget.tripped += 1
        ctx.violation("C19/wiring:script-does-not-finish", "the eager twin of the script did not finish within 30 s on the real code", rd)
        return "bad"
    if (er.err is None) != (lazy_run.err is None):
        if lazy_run.err is None:
            ctx.count("twin:eager-raises-lazy-does-not")     # ill-formed scripts only (duplicate given as string + node)
            return "skip"
        ctx.violation("C19/lazy:error-differs", "lazy script fails with %r, the eager twin does not" % (lazy_run.err,), rd)
        return "bad"
    if er.err is not None:
        if er.err != lazy_run.err:
            ctx.violation("C19/lazy:error-differs", "lazy script fails with %r, the eager twin with %r" % (lazy_run.err, er.err), rd)
        return "err"
    try:
        a = name_map(bt, lazy_run)
        b = name_map(bt, er)
    except Exception as e:  # noqa
        ctx.violation("C19/wiring:attributes-unreadable:" + type(e).__name__, "comparing a script with its eager twin: %s" % str(e)[:200], rd)
        return "bad"
    for k, v in a.items():
        if k not in b:
            # a name that was never declared and is created on first use has no eager counterpart
            ctx.count("twin:undeclared-created")
            continue
        if v != b[k]:
            f = [i for i in range(len(v)) if v[i] != b[k][i]][0]
            ctx.violation("C19/lazy:differs-from-eager:field%d" % f, "%s: lazy tree %r, eager twin %r" % (k, v, b[k]), rd)
            return "bad"
    for k, v in b.items():
        if k not in a and v[0] != "sec":
            ctx.violation("C19/lazy:strategy-missing", "%s exists only in the eager twin" % k, rd)
    return "ok"


def run_script(ctx, bt, script, compare_model=True, tag="gen"):
    """execute one script on the real code under the monitor; returns (run, request line)"""
    rd = {"script": script}
    decl = Decl(script)
    state = {"setup": False, "pending": set()}

    def hook(run, k, op):
        where = "after op %d %r" % (k, op if op is None else op[:3])
        top = run.root
        kind = None if op is None else op[0]
        if kind == "A":
            decl.attach(op)
            if state["setup"]:
                state["pending"].add((tuple(op[1]), op[2]))       # its column is owed by setup_from_parent
        if kind == "P":
            state["pending"].discard((tuple(op[1]), op[2]))
        if kind == "U":
            state["setup"] = True
        if kind == "B":
            # deep-copy isolation: the object handed to Backtest is untouched
            if describe(run, run.original) != run.original_desc:
                ctx.violation("C19/copy:backtest-changed-its-argument", "the strategy passed to bt.Backtest changed (%s)" % where, rd)
            if run.root is run.original:
                ctx.violation("C19/copy:backtest-did-not-copy", "Backtest.strategy is the object passed in", rd)
            mon_settings(ctx, bt, run.root, "integer", bool(op[1]), rd, where, state["setup"])
            if op[2] is not None:
                mon_settings(ctx, bt, run.root, "comm", COMMS[op[2]], rd, where, state["setup"])
        if kind == "I":
            mon_settings(ctx, bt, run.node(op[1]), "integer", bool(op[2]), rd, where, state["setup"])
        if kind == "C":
            mon_settings(ctx, bt, run.node(op[1]), "comm", COMMS[op[2]], rd, where, state["setup"])
        if kind == "X":
            mon_created(ctx, bt, run, run.node(op[1]), op[2], rd, where)
        if kind in (None, "A", "X", "U", "B", "P"):
            mon_structure(ctx, bt, top, rd, where)
            if kind in ("U", "P"):
                for real, p in papers_of(bt, top):
                    mon_structure(ctx, bt, p, rd, where + " (shadow copy of %s)" % real.full_name, is_paper=True)
        if state["setup"] and kind in ("U", "D", "X", "P"):
            mon_universe(ctx, bt, run, decl, rd, where, state["pending"])
        if kind == "D":
            mon_substrategy_column(ctx, bt, top, rd, where)

    def safe_hook(run, k, op):
        # the monitor reads the attributes the property talks about; a tree on which they cannot even be read is not wired
        try:
            hook(run, k, op)
        except Exception as e:  # noqa
            ctx.violation("C19/wiring:attributes-unreadable:" + type(e).__name__, "after op %d %r: %s: %s" % (k, op if op is None else op[:3], type(e).__name__, str(e)[:200]), rd)

    try:
        with Budget(10.0):
            run = Run(bt, script).execute(safe_hook)
    except ScriptTimeout:
        # confirm before reporting (a collector pause or a loaded machine is not a property of the code): once more, without the monitor
        ctx.count("budget:first-timeout")
        gc.collect()
        try:
            with Budget(30.0):
                Run(bt, script).execute()
            again = False
        except ScriptTimeout:
            again = True
        if again:
            Budget.tripped += 1
            ctx.violation("C19/wiring:script-does-not-finish", "the script did not finish within 10 s and, run again, within 30 s on the real code (normal: 0.05 s): "
                          "construction / setup keeps copying", rd)
            run = Run(bt, script)
            run.err = (-1, "Timeout")
            return run
        ctx.count("budget:not-confirmed")
        run = Run(bt, script).execute(safe_hook)
    # settings pushed from the top reach descendants that come to exist later
    if run.err is None:
        try:
            final_settings(ctx, bt, run, script, rd)
        except Exception as e:  # noqa
            ctx.violation("C19/wiring:attributes-unreadable:" + type(e).__name__, "at the end of the script: %s" % str(e)[:200], rd)
    return run


def final_settings(ctx, bt, run, script, rd):
    c = bt.core
    last_int = None
    last_comm = None
    for op in script["ops"]:
        if op[0] == "I":
            last_int = bool(op[2]) if not op[1] else None      # a setting on a sub-strategy: the tree is no longer uniform
        if op[0] == "C":
            last_comm = COMMS[op[2]] if not op[1] else None
        if op[0] == "B":
            last_int = bool(op[1])
            if op[2] is not None:
                last_comm = COMMS[op[2]]
    top = run.root
    for n, path, par in struct_walk(bt, top):
        if last_int is not None and bool(n.integer_positions) != last_int:
            ctx.violation("C19/settings:integer-not-inherited-by-later-descendant", "%s.integer_positions is %r, the top was set to %r before it came to exist"
                          % (">".join(path), n.integer_positions, last_int), rd)
        if last_comm is not None and isinstance(n, c.StrategyBase) and n.commission_fn is not last_comm:
            ctx.violation("C19/settings:commission-not-inherited-by-late-child", "%s.commission_fn is its own default although set_commissions was pushed from the top "
                          "before it was attached" % ">".join(path), rd)


# ------------------------------------------------------------------ (a) the wiring protocol
def wiring_protocol(ctx, bt, scripts, name="wiring", twins=0):
    """scripts on the real code (under the monitor) and through the model; the first `twins` scripts are also compared with
    their eager twin.  Worked off in batches so that the real trees do not pile up."""
    ncmp = nd = done = 0
    for lo in range(0, len(scripts), 250):
        batch = scripts[lo:lo + 250]
        reals, reqs, used = [], [], []
        for sc in batch:
            if Budget.tripped >= 3:
                ctx.notes.append("%s: stopped after %d scripts that did not finish" % (name, Budget.tripped))
                break
            ctx.evaluations += 1
            run = run_script(ctx, bt, sc)
            if done < twins:
                r = mon_twin(ctx, bt, sc, run, {"script": sc, "twin": True})
                ctx.count("twin:" + str(r))
                ctx.count("twin:pairs")
            done += 1
            ctx.classes.add(classify_script(sc, run))
            ctx.count("wiring:outcome:" + ("ok" if run.err is None else run.err[1]))
            for op in sc["ops"]:
                ctx.count("wiring:op:" + op[0])
            if len(ctx.samples) < 3:
                ctx.sample({"script": sc, "real": real_answer(run)[:300]})
            if run.err is not None and run.err[1] == "Timeout":
                continue
            reals.append(real_answer(run))
            reqs.append(request(sc))
            used.append(sc)
            del run
        answers = leanrun.run_lines(reqs)
        for sc, real, ans in zip(used, reals, answers):
            ncmp += 1
            if real != ans:
                nd += 1
                a, b = real.split(" "), ans.split(" ")
                i = next((j for j in range(min(len(a), len(b))) if a[j] != b[j]), min(len(a), len(b)))
                ctx.disagreement("corr:wiring:structure", {"first_diff_token": i, "real": " ".join(a[max(0, i - 12):i + 6]), "model": " ".join(b[max(0, i - 12):i + 6]),
                                                           "real_head": real[:80], "model_head": ans[:80]}, {"script": sc})
        gc.collect()
        if Budget.tripped >= 3:
            break
    ctx.protocols.append((name, ncmp, nd))


def classify_script(sc, run):
    """input class: kinds of nodes (with children mode), depth, kinds of operations (before/after setup, at the top or below), outcome"""
    kinds = set()
    depth = [0]

    def walk(s, d):
        depth[0] = max(depth[0], d)
        if s[0] == "T":
            kinds.add(("T", s[1], s[3], len(s[4]) > 0))
            for k in s[4]:
                walk(k[1] if s[3] == "D" else k, d + 1)
        elif s[0] == "S":
            kinds.add(("S", s[1], s[3]))
        else:
            kinds.add(("s",))

    walk(sc["spec"], 0)
    ops = set()
    seen_setup = False
    for op in sc["ops"]:
        if op[0] == "U":
            seen_setup = True
        ops.add((op[0], (len(op[1]) > 0) if op[0] in "AICXP" else None, seen_setup))
    return (tuple(sorted(kinds, key=str)), depth[0], tuple(sorted(ops, key=str)), bool(sc.get("share")), None if run.err is None else run.err[1])


# ------------------------------------------------------------------ (b) paired whole runs
def variant_strategy(bt, spec, variant):
    """the program of `spec` with its securities given as strings (lazy), constructed (eager) or not at all (omitted)"""
    dates = spec["dates"]
    cls = bt.FixedIncomeStrategy if spec.get("fi") else bt.Strategy

    def mk(t, top):
        tickers = (t.get("tickers") or []) + [k["name"] for k in t.get("kids", [])]
        algos = [R.mk_algo(bt, d, tickers or spec["tickers"], dates, None, None) for d in t["stack"]]
        kids = [mk(k, False) for k in t.get("kids", [])]
        declared = t["tickers"] if t.get("tickers") is not None else (list(spec["tickers"]) if not kids else [])
        if variant == "omitted":
            ch = None
        elif variant == "eager":
            ch = kids + [bt.Security(x) for x in declared]
        elif variant == "lazyobj":
            ch = kids + [bt.Security(x, lazy_add=True) for x in declared]
        elif variant == "dict":
            ch = {k.name: k for k in kids}
            ch.update({x: "" for x in declared})
        else:
            ch = kids + list(declared)
        return cls(t["name"], algos, ch or None)

    return mk(spec["tree"], True)


def run_variant(bt, spec, variant):
    s = variant_strategy(bt, spec, variant)
    b, data, add = R.build_backtest(bt, spec, strategy=s)
    b.run()
    return b


def histories(bt, b):
    c = bt.core
    out = {}
    for n in b.strategy.members:
        if isinstance(n, c.SecurityBase):
            out[n.full_name] = {"positions": np.asarray(n._positions.values, dtype=float), "values": np.asarray(n._values.values, dtype=float),
                                "outlays": np.asarray(n._outlays.values, dtype=float)}
        else:
            out[n.full_name] = {"prices": np.asarray(n._prices.values, dtype=float), "values": np.asarray(n._values.values, dtype=float),
                                "cash": np.asarray(n._cash.values, dtype=float), "fees": np.asarray(n._fees.values, dtype=float)}
    return out


def close(a, b, scale):
    if a != a and b != b:
        return True
    return abs(a - b) <= 1e-9 * max(1.0, abs(a), abs(b), scale)


def flat_flatten_run(bt, spec, variant, neutralise):
    """runs the variant with StrategyBase.flatten observed from outside.  Returns (backtest, dates) where dates are those on
    which flatten ran on a strategy whose whole subtree held nothing and thereby turned a fresh root stale.  With
    `neutralise` the stale flag such a call sets is taken back (nothing was traded): the counterfactual run that decides
    whether those calls are THE cause of a lazy/eager difference."""
    SB = bt.core.StrategyBase
    orig = SB.flatten
    events = []

    def wrapped(self):
        before = bool(self.root.stale)
        held = any((getattr(c, "_position", 0) != 0) or (c._value != 0) for c in self.members if c is not self)
        r = orig(self)
        if not before and not held and self.root.stale:
            events.append(str(self.root.now)[:10])
            if neutralise:
                self.root.stale = False
        return r

    SB.flatten = wrapped
    try:
        b = run_variant(bt, spec, variant)
    finally:
        SB.flatten = orig
    return b, events


def first_difference(ha, hb, capital, integer):
    """None, or (kind, node, series, row, a, b) for the first difference of two name-indexed history maps; a security that
    exists on one side only must have all-zero rows there"""
    for name in sorted(set(ha) | set(hb)):
        x, y = ha.get(name), hb.get(name)
        if x is None or y is None:
            z = x or y
            if "positions" not in z:
                return ("strategy-missing", name, None, None, x is not None, y is not None)
            if np.any(z["positions"] != 0) or np.any(np.nan_to_num(z["values"]) != 0):
                return ("node-missing", name, None, None, x is not None, y is not None)
            continue
        for ser in x:
            u, v = x[ser], y[ser]
            if len(u) != len(v):
                return ("length", name, ser, None, len(u), len(v))
            for i in range(len(u)):
                if ser == "positions" and integer:
                    ok = u[i] == v[i] or (u[i] != u[i] and v[i] != v[i])
                elif ser == "positions":
                    ok = close(float(u[i]), float(v[i]), 0.0)       # fractional quantities are quotients of sums taken in another order
                else:
                    ok = close(float(u[i]), float(v[i]), capital if ser != "prices" else 100.0)
                if not ok:
                    return ("differ", name, ser, i, float(u[i]), float(v[i]))
    return None


def report_difference(ctx, bt, spec, d, la, lb, h_lazy, rd):
    """key of a lazy/eager difference: the known cause only when it is shown to be the cause"""
    kind, name, ser, row, a, b = d
    if kind == "strategy-missing":
        ctx.violation("C19/lazy-run:strategy-missing", "%s exists only in the %s run" % (name, la if a else lb), rd)
        return
    if kind == "node-missing":
        ctx.violation("C19/lazy-run:node-missing", "%s holds positions in the %s run and does not exist in the other" % (name, la if a else lb), rd)
        return
    if kind == "length":
        ctx.violation("C19/lazy-run:length", "%s.%s: %d rows (%s) vs %d (%s)" % (name, ser, a, la, b, lb), rd)
        return
    key = "C19/lazy-run:%s-differ" % ser
    why = ""
    if lb == "eager":
        # cause analysis: (1) in the eager run flatten was called on a position-free sub-strategy and turned a fresh root stale on a date
        # not after the first differing row; (2) the eager run with exactly those stale flags taken back equals the lazy run
        try:
            _, events = flat_flatten_run(bt, spec, "eager", False)
            upto = spec["dates"][min(max(row, 1), len(spec["dates"])) - 1]
            early = sorted(set(e for e in events if e <= upto))
            if early:
                b2, _ = flat_flatten_run(bt, spec, "eager", True)
                if first_difference(h_lazy, histories(bt, b2), spec["capital"], spec["integer"]) is None:
                    key = "C19/lazy-run:differs:flatten-of-flat-substrategy-marks-root-stale"
                    why = ("; cause (shown by re-running): in the run with constructed securities `close` of a sub-strategy that holds nothing called flatten(), "
                           "which set root.stale although nothing was traded (dates %s), so the next weight read refreshed the tree in the middle of the Rebalance; "
                           "with string children flatten is not called (no child objects yet). Taking those stale flags back makes the two runs equal" % early[:3])
                else:
                    ctx.count("pairs:flatten-events-not-the-cause")
        except Exception as e:  # noqa
            ctx.count("pairs:cause-analysis-raised:" + type(e).__name__)
    ctx.violation(key, "%s.%s row %d: %r (%s) vs %r (%s)%s" % (name, ser, row, a, la, b, lb, why), rd)


def mon_finished_run(ctx, bt, b, spec, variant, rd):
    """after a backtest: structure, universe columns = child price series, settings reached everyone incl. lazily
    created children and the shadow copies"""
    c = bt.core
    top = b.strategy
    where = "finished %s run" % variant
    mon_structure(ctx, bt, top, rd, where)
    comm = top.commission_fn
    for n, path, par in struct_walk(bt, top):
        if bool(n.integer_positions) != bool(spec["integer"]):
            ctx.violation("C19/settings:integer-not-reached", "%s.integer_positions is %r, Backtest(integer_positions=%r) (%s)" % (">".join(path), n.integer_positions, spec["integer"], where), rd)
        if isinstance(n, c.StrategyBase) and spec["comm"][0] != 0 and n.commission_fn is not comm:
            ctx.violation("C19/settings:commission-not-reached", "%s has another commission function than the top (%s)" % (">".join(path), where), rd)
    for real, p in papers_of(bt, top):
        for n, path, par in struct_walk(bt, p):
            if bool(n.integer_positions) != bool(spec["integer"]):
                ctx.violation("C19/settings:integer-not-reached:paper-copy", "shadow copy of %s: %s.integer_positions is %r, Backtest(integer_positions=%r)"
                              % (real.full_name, ">".join(path), n.integer_positions, spec["integer"]), rd)
            if isinstance(n, c.StrategyBase) and spec["comm"][0] != 0 and n.commission_fn is not comm:
                ctx.violation("C19/settings:commission-not-reached:paper-copy", "shadow copy of %s: %s has another commission function than the top" % (real.full_name, ">".join(path)), rd)
    data_cols = [str(x) for x in b.data.columns]
    for n, path, par in struct_walk(bt, top):
        if not isinstance(n, c.StrategyBase):
            continue
        t = spec["tree"] if par is None else next(k for k in spec["tree"]["kids"] if k["name"] == n.name)
        kids = [k["name"] for k in t.get("kids", [])]
        if variant == "omitted":
            want = list(data_cols)
        else:
            declared = t["tickers"] if t.get("tickers") is not None else (list(spec["tickers"]) if not kids else [])
            want = [x for x in data_cols if x in declared] + kids if (declared or kids) else list(data_cols)
        got = [str(x) for x in n._universe.columns]
        if got != want:
            ctx.violation("C19/universe:columns-differ", "%s: universe columns %r, the text wants %r (%s)" % (">".join(path), got, want, where), rd)
        for k in kids:
            child = n.children[k]
            col = np.asarray(n._universe[k].values, dtype=float)
            cp = np.asarray(child._prices.values, dtype=float)
            bad = [i for i in range(len(cp)) if not (col[i] == cp[i] or (col[i] != col[i] and cp[i] != cp[i]))]
            if bad:
                ctx.violation("C19/universe:substrategy-column-not-child-price", "%s universe[%s] row %d is %r, the child's price %r (%s)"
                              % (n.full_name, k, bad[0], col[bad[0]], cp[bad[0]], where), rd)


def paired_run(ctx, bt, spec):
    rd = {"run_spec": spec}
    flat = not spec["tree"]["kids"]
    all_declared = flat and (spec["tree"]["tickers"] is None or list(spec["tree"]["tickers"]) == list(spec["tickers"]))
    variants = ["lazy", "eager", "lazyobj", "dict"] + (["omitted"] if all_declared else [])
    res = {}
    for v in variants:
        try:
            with Budget(30.0):
                res[v] = run_variant(bt, spec, v)
        except ScriptTimeout:
            Budget.tripped += 1
            ctx.violation("C19/lazy-run:does-not-finish", "the %s variant of the program did not finish within 30 s" % v, rd)
            return
        except Exception as e:  # noqa
            res[v] = "raised:" + E.classify_exc(e)
    outcomes = {v: (r if isinstance(r, str) else "completed") for v, r in res.items()}
    ctx.count("pairs:" + ("completed" if outcomes["lazy"] == "completed" else outcomes["lazy"]))
    if len(set(outcomes.values())) != 1:
        ctx.violation("C19/lazy-run:outcome-differs", "the same program %r" % (outcomes,), rd)
        return
    if outcomes["lazy"] != "completed":
        return
    ctx.classes.add(("pair", len(spec["tree"]["kids"]), tuple(d[0] for d in spec["tree"]["stack"]), spec["integer"], spec["comm"][0], all_declared, spec["grid"]))
    hs = {v: histories(bt, b) for v, b in res.items()}
    for v in variants[1:]:
        ctx.count("pairs:compared:" + v)
        d = first_difference(hs["lazy"], hs[v], spec["capital"], spec["integer"])
        if d is not None:
            report_difference(ctx, bt, spec, d, "lazy", v, hs["lazy"], dict(rd, variant=v))
            return
    for v, b in res.items():
        mon_finished_run(ctx, bt, b, spec, v, dict(rd, variant=v))


def pairs_protocol(ctx, bt, n):
    ncmp = 0
    nbad0 = len(ctx.violations)
    for i in range(n):
        if Budget.tripped >= 3:
            break
        spec = R.gen_run_spec(ctx.rng, nested=(i % 3 == 0), T=ctx.rng.randint(5, 12))
        ctx.evaluations += 1
        paired_run(ctx, bt, spec)
        ncmp += 1
    ctx.protocols.append(("lazy-eager-runs", ncmp, 0 if len(ctx.violations) == nbad0 else len([v for v in ctx.violations[nbad0:] if v["key"].startswith("C19/lazy-run")])))


# ------------------------------------------------------------------ (d) lazy / eager twins across dynamic sub-strategies bound with overrides
# Clause: "a security named only by a string and created on first use behaves exactly like one constructed up front".
# One trading script is run twice: with the securities named by strings / lazy_add objects (created on first use) and with
# every one of them constructed up front.  Between setup and the first use of some names a dynamic sub-strategy is attached
# with parent= and bound with setup_from_parent(**overrides) (its own bid/offer table, coupons, holding costs, free keys).
# Everything the two trees record must be the same.
DYN_TICK = ["aa", "bb", "cc", "dd", "ee", "ff"]
DYN_KW = ["bidoffer", "coupons", "cost_long", "cost_short"]


def _dy(rng, lo, hi, unit):
    """a dyadic number in [lo, hi] (multiples of `unit`): sums of such numbers do not depend on the order of summation"""
    return unit * rng.randint(int(lo / unit), int(hi / unit))


def gen_dyn(rng):
    cols = rng.sample(DYN_TICK, rng.randint(4, 6))
    T = rng.randint(5, 8)
    px = []
    cur = [_dy(rng, 16, 120, 0.25) for _ in cols]
    for i in range(T):
        px.append(list(cur))
        cur = [max(4.0, c + _dy(rng, -3, 3, 0.25)) for c in cur]
    fi = int(rng.random() < 0.2)
    integer = int(rng.random() < 0.5)
    comm = rng.choice([None, None, 1, 2])
    has_sub = rng.random() < 0.35
    omitted = (not has_sub) and rng.random() < 0.2

    def secs(names, plain):
        out = []
        for nm in names:
            kind = 0 if (plain or rng.random() < 0.6) else rng.randint(1, 4)
            if kind == 0:
                form = "s" if rng.random() < 0.75 else "z"
            else:
                form = "z" if rng.random() < 0.8 else "e"          # "e": constructed up front in both runs (control)
            out.append([nm, kind, form])
        return out

    top_names = list(cols) if omitted else rng.sample(cols, rng.randint(2, min(4, len(cols))))
    top = {"mode": "N" if omitted else "L", "secs": secs(top_names, omitted)}
    sub = None
    if has_sub:
        sub = {"name": "s1", "secs": secs(rng.sample(cols, rng.randint(2, 3)), False)}

    def kwframe(scale):
        return [_dy(rng, 0.125, 0.5, 0.125) * scale, rng.choice([0.0, 0.125]) * scale, rng.choice([0.0, 0.0625]) * scale]

    # dynamic sub-strategies: where, when, with which children and which overrides
    n_dyn = 1 if rng.random() < 0.75 else 2
    rows = sorted(rng.sample(range(1, T - 1), min(n_dyn, T - 2)))
    dyns = []
    for k, row in enumerate(rows):
        path = ["s1"] if (has_sub and rng.random() < 0.35) else []
        dsecs = secs(rng.sample(cols, 2), False)
        dyns.append({"row": row, "path": path, "name": "t%d" % (k + 1), "secs": dsecs})
    need_coupons = any(k in (2, 4) for grp in [top["secs"], (sub or {"secs": []})["secs"]] + [d["secs"] for d in dyns] for _, k, _ in grp)
    kw = {}
    if rng.random() < 0.75:
        kw["bidoffer"] = kwframe(1.0)
    if need_coupons or rng.random() < 0.25:
        kw["coupons"] = kwframe(0.5)
        for key in ("cost_long", "cost_short"):
            if rng.random() < 0.3:
                kw[key] = kwframe(0.25)
    if rng.random() < 0.3:
        kw["note"] = rng.randint(1, 9)
    for d in dyns:
        over = {}
        r = rng.random()
        if r < 0.1:
            pass                                               # bound without overrides
        else:
            if rng.random() < (0.8 if "bidoffer" in kw else 0.5):
                over["bidoffer"] = kwframe(4.0)                # a frame of its own (a new key when the parent has none)
            if "coupons" in kw and rng.random() < 0.6:
                over["coupons"] = kwframe(2.0)
            for key in ("cost_long", "cost_short"):
                if "coupons" in kw and rng.random() < 0.3:
                    over[key] = kwframe(1.0)
            if rng.random() < 0.3:
                over["note"] = rng.randint(10, 19)
            if rng.random() < 0.15:
                over["note2"] = rng.randint(20, 29)
        d["over"] = over

    # the trades
    names_at = {(): [s[0] for s in top["secs"]]}
    if sub:
        names_at[("s1",)] = [s[0] for s in sub["secs"]]
    # names kept for a first use after a dynamic sub-strategy was bound at their node
    late = {}
    for d in dyns:
        pool = names_at[tuple(d["path"])]
        keep = rng.sample(pool, rng.randint(1, len(pool)))
        late.setdefault(tuple(d["path"]), (d["row"], set()))[1].update(keep)
    used = {k: set() for k in names_at}
    ops = [["F", 1000000.0], ["D", 0]]

    def trade(path, row, force_new=False):
        key = tuple(path)
        pool = list(names_at[key])
        if key in late and row < late[key][0] or (key in late and row == late[key][0] and not bound.get(key)):
            pool = [n for n in pool if n not in late[key][1]]
        if force_new:
            fresh = [n for n in pool if n not in used[key]]
            pool = fresh or pool
        if not pool:
            return
        nm = rng.choice(pool)
        r = rng.random()
        if nm in used[key] and r < 0.2:
            ops.append(["Z", list(path), nm])
        elif r < 0.55:
            base = rng.choice([None, 524288.0, 1048576.0]) if not fi else rng.choice([524288.0, 1048576.0])
            ops.append(["R", list(path), nm, rng.choice([0.125, 0.25, 0.375, 0.25, -0.125]), base])
        elif r < 0.8:
            ops.append(["L", list(path), nm, rng.choice([32768.0, 65536.0, 131072.0, -16384.0])])
        else:
            ops.append(["T", list(path), nm, rng.choice([128.0, 256.0, 1024.0, -64.0])])
        used[key].add(nm)

    bound = {}
    funded = False
    for row in range(1, T):
        ops.append(["D", row])
        if sub and not funded:
            ops.append(["L", [], "s1", 262144.0])
            ops.append(["D", row])           # a strategy funded on a day without a closing update cannot be updated the day after
            funded = True
        # some trades may come before the dynamic sub-strategy of the day
        for _ in range(rng.choice([0, 0, 1])):
            trade(rng.choice(list(names_at)), row)
        for d in dyns:
            if d["row"] == row:
                ops.append(["N", list(d["path"]), d["name"], d["secs"], d["over"], rng.choice([65536.0, 131072.0])])
                bound[tuple(d["path"])] = True
                cn = [s[0] for s in d["secs"]]
                for nm in rng.sample(cn, rng.randint(1, len(cn))):
                    if rng.random() < 0.7:
                        ops.append(["R", list(d["path"]) + [d["name"]], nm, rng.choice([0.5, 0.25, -0.25]), 65536.0])
                    else:
                        ops.append(["T", list(d["path"]) + [d["name"]], nm, rng.choice([64.0, -64.0, 256.0])])
                if rng.random() < 0.5:
                    ops.append(["D", row])
        after = [k for k in late if bound.get(k) and [n for n in late[k][1] if n not in used[k]]]
        for k in after:
            if rng.random() < 0.8:
                trade(list(k), row, force_new=True)
        for _ in range(rng.choice([0, 1, 1, 2])):
            trade(rng.choice(list(names_at)), row)
        if rng.random() < 0.6 or any(d["row"] == row for d in dyns):
            ops.append(["D", row])
    return {"fi": fi, "integer": integer, "comm": comm, "cols": cols, "px": px, "top": top, "sub": sub, "kw": kw, "ops": ops}


def _dyn_frame(index, cols, d):
    base, dj, di = d
    return pd.DataFrame({c: [base + dj * (j % 3) + di * (i % 4) for i in range(len(index))] for j, c in enumerate(cols)}, index=index, columns=list(cols))


def _dyn_kwargs(index, cols, kw):
    return {k: (_dyn_frame(index, cols, v) if k in DYN_KW else v) for k, v in kw.items()}


def _dyn_children(bt, secs, variant, mode="L", cols=()):
    if mode == "N":
        return None if variant == "lazy" else [bt.Security(c) for c in cols]
    out = []
    for nm, kind, form in secs:
        cls = getattr(bt.core, KINDS[kind])
        if form == "e" or variant == "eager":
            out.append(cls(nm))
        elif form == "s":
            out.append(nm)
        else:
            out.append(cls(nm, lazy_add=True))
    return out


def dyn_execute(bt, spec, variant):
    """the trading script on the real code; returns (root, error or None, number of first uses after a bound dynamic sub-strategy)"""
    index = pd.date_range("2021-03-01", periods=len(spec["px"]), freq="D")
    cols = spec["cols"]
    data = pd.DataFrame(spec["px"], index=index, columns=list(cols), dtype=float)
    ch = _dyn_children(bt, spec["top"]["secs"], variant, spec["top"]["mode"], cols)
    if spec["sub"]:
        ch = [bt.Strategy(spec["sub"]["name"], [], _dyn_children(bt, spec["sub"]["secs"], variant))] + ch
    root = (bt.FixedIncomeStrategy if spec["fi"] else bt.Strategy)("p", [], ch)
    root.use_integer_positions(bool(spec["integer"]))
    if spec["comm"] is not None:
        root.set_commissions(COMMS[spec["comm"]])
    root.setup(data, **_dyn_kwargs(index, cols, spec["kw"]))
    late_first = 0
    bound = set()

    def node(path):
        n = root
        for p in path:
            n = n.children[p]
        return n

    for k, op in enumerate(spec["ops"]):
        try:
            kind = op[0]
            if kind == "F":
                root.adjust(op[1])
            elif kind == "D":
                root.update(index[op[1]])
            elif kind == "N":
                par = node(op[1])
                c = bt.Strategy(op[2], [], _dyn_children(bt, op[3], variant), parent=par)
                c.setup_from_parent(**_dyn_kwargs(index, cols, op[4]))
                c.update(par.now)
                par.allocate(op[5], child=op[2])
                bound.add(tuple(op[1]))
            else:
                n = node(op[1])
                if tuple(op[1]) in bound and op[2] not in n.children:
                    late_first += 1
                if kind == "R":
                    n.rebalance(op[3], op[2]) if op[4] is None else n.rebalance(op[3], op[2], base=op[4])
                elif kind == "L":
                    n.allocate(op[3], child=op[2])
                elif kind == "T":
                    n.transact(op[3], child=op[2])
                elif kind == "Z":
                    if op[2] in n.children:
                        n.close(op[2])
        except Exception as e:  # noqa
            return root, (k, classify(e)), late_first
    return root, None, late_first


def _arr(x):
    return np.asarray(pd.Series(x).values if not isinstance(x, pd.Series) else x.values, dtype=float)


def dyn_record(bt, root):
    """{full name: {series name: array | {column: array} | ('raised', class)}} read through the public getters"""
    c = bt.core
    out = {}

    def get(n, attr):
        try:
            v = getattr(n, attr)
            if callable(v):
                v = v()
        except Exception as e:  # noqa
            return ("raised", type(e).__name__)
        if isinstance(v, pd.DataFrame):
            if isinstance(v.index, pd.MultiIndex):
                rows = sorted((str(i[0])[:10], str(i[1]), float(r["price"]), float(r["quantity"])) for i, r in v.iterrows())
                return {"%s|%s" % (a, b): np.asarray([p, q]) for a, b, p, q in rows}
            return {str(col): np.asarray(v[col].values, dtype=float) for col in v.columns}
        return np.asarray(v.values, dtype=float)

    try:
        if root.stale:
            root.update(root.now)
    except Exception:  # noqa
        pass
    for n in root.members:
        if n.full_name in out:
            continue
        if isinstance(n, c.SecurityBase):
            fields = ["positions", "values", "prices", "notional_values", "outlays", "bidoffers", "bidoffers_paid"]
            if isinstance(n, c.CouponPayingSecurity):
                fields += ["coupons", "holding_costs"]
        else:
            fields = ["positions", "cash", "bidoffers_paid", "values", "prices", "notional_values", "fees", "flows", "outlays"]
            if n is root:
                fields.append("get_transactions")
        out[n.full_name] = {f: get(n, f) for f in fields}
        out[n.full_name]["__kind"] = type(n).__name__
    return out


def dyn_first_difference(ra, rb, integer):
    """None or (node, series, detail) - `ra` the lazy record, `rb` the eager one"""
    def cmp(ser, u, v):
        if isinstance(u, tuple) or isinstance(v, tuple):
            return None if u == v else "%r vs %r" % (u, v)
        if isinstance(u, dict) != isinstance(v, dict):
            return "shape"
        if isinstance(u, dict):
            for col in sorted(set(u) | set(v)):
                x, y = u.get(col), v.get(col)
                if x is None or y is None:
                    z = x if y is None else y
                    if ser in ("positions", "outlays") and not np.any(np.nan_to_num(z) != 0):
                        continue          # a security that exists in the eager tree only and never traded
                    return "column %s exists only in the %s tree" % (col, "lazy" if y is None else "eager")
                d = cmp(ser + "[" + col + "]", x, y)
                if d:
                    return "column %s: %s" % (col, d)
            return None
        if len(u) != len(v):
            return "%d rows vs %d" % (len(u), len(v))
        for i in range(len(u)):
            a, b = float(u[i]), float(v[i])
            if ser.startswith("positions") and integer:
                ok = a == b or (a != a and b != b)
            else:
                ok = close(a, b, 1.0)
            if not ok:
                return "row %d: %r (created on first use) vs %r (constructed up front)" % (i, a, b)
        return None

    for name in sorted(set(ra) | set(rb)):
        x, y = ra.get(name), rb.get(name)
        if x is None:
            if "Strategy" in y["__kind"]:
                return (name, "node", "the strategy exists only in the eager tree")
            pos = y.get("positions")
            if not isinstance(pos, tuple) and np.any(np.nan_to_num(pos) != 0):
                return (name, "node", "holds positions in the eager tree and does not exist in the lazy one")
            continue
        if y is None:
            return (name, "node", "exists only in the lazy tree")
        for ser in x:
            if ser == "__kind":
                if x[ser] != y[ser]:
                    return (name, "class", "%s vs %s" % (x[ser], y[ser]))
                continue
            d = cmp(ser, x[ser], y[ser])
            if d:
                return (name, ser, d)
    return None


def dyn_pair(ctx, bt, spec):
    """the monitor: the run with securities created on first use records what the run with securities constructed up front records"""
    rd = {"dyn": spec}
    res = {}
    for v in ("lazy", "eager"):
        try:
            with Budget(30.0):
                res[v] = dyn_execute(bt, spec, v)
        except ScriptTimeout:
            Budget.tripped += 1
            ctx.violation("C19/dyn-twin:does-not-finish", "the %s run of the trading script did not finish within 30 s" % v, rd)
            return
    (lr, le, nlate), (er, ee, _) = res["lazy"], res["eager"]
    ctx.count("dyn:pairs")
    ctx.count("dyn:first-uses-after-bound-substrategy", nlate)
    ctx.count("dyn:outcome:" + ("ok" if le is None else le[1]))
    n_over = 0
    for op in spec["ops"]:
        if op[0] == "N":
            ctx.count("dyn:substrategies")
            for k in op[4]:
                ctx.count("dyn:override:" + k + (":replaces" if k in spec["kw"] else ":new-key"))
                n_over += 1
    ctx.classes.add(("dyn", spec["fi"], spec["integer"], spec["comm"], spec["top"]["mode"], spec["sub"] is not None, tuple(sorted(spec["kw"])),
                     tuple(tuple(sorted(op[4])) + (len(op[1]),) for op in spec["ops"] if op[0] == "N"), nlate > 0, None if le is None else le[1]))
    if le != ee:
        ctx.violation("C19/dyn-twin:outcome-differs", "the script with securities created on first use %s, with securities constructed up front %s"
                      % ("completes" if le is None else "raises %s at op %d %r" % (le[1], le[0], spec["ops"][le[0]][:4]),
                         "completes" if ee is None else "raises %s at op %d %r" % (ee[1], ee[0], spec["ops"][ee[0]][:4])), rd)
        return
    if le is not None:
        # both runs stop at the same operation with the same error: the trees are left in the middle of an update (how far it got depends on
        # the order of the children, which is not the same in the two trees).  The histories are compared where the property speaks about
        # them: after the last completed update before the failing operation
        last = max([j for j in range(le[0]) if spec["ops"][j][0] == "D"] or [-1])
        cut = dict(spec, ops=spec["ops"][:last + 1])
        try:
            with Budget(30.0):
                lr, le2, _ = dyn_execute(bt, cut, "lazy")
                er, ee2, _ = dyn_execute(bt, cut, "eager")
        except ScriptTimeout:
            Budget.tripped += 1
            ctx.violation("C19/dyn-twin:does-not-finish", "the trading script cut before its failing operation did not finish within 30 s", rd)
            return
        if le2 is not None or ee2 is not None:
            ctx.count("dyn:prefix-not-reproducible")
            return
        ctx.count("dyn:compared-up-to-last-update-before-error")
    try:
        with Budget(30.0):
            ra, rb = dyn_record(bt, lr), dyn_record(bt, er)
    except ScriptTimeout:
        Budget.tripped += 1
        ctx.violation("C19/dyn-twin:does-not-finish", "reading the histories did not finish within 30 s", rd)
        return
    d = dyn_first_difference(ra, rb, bool(spec["integer"]))
    if d is not None:
        dyn_desc = ["%s under %s bound with setup_from_parent(%s)" % (op[2], ">".join(["p"] + op[1]), ", ".join(sorted(op[4]))) for op in spec["ops"] if op[0] == "N"]
        ctx.violation("C19/dyn-twin:%s-differ" % d[1].replace("get_transactions", "transactions"),
                      "%s.%s: %s; same trading script, the securities named by strings / lazy_add and created on first use in one run, constructed up front "
                      "in the other; dynamic sub-strategies: %s" % (d[0], d[1], d[2], "; ".join(dyn_desc)), rd)
    else:
        ctx.count("dyn:equal")


def dyn_protocol(ctx, bt, n):
    nbad0 = len(ctx.violations)
    done = 0
    for _ in range(n):
        if Budget.tripped >= 3:
            break
        spec = gen_dyn(ctx.rng)
        ctx.evaluations += 1
        dyn_pair(ctx, bt, spec)
        done += 1
    ctx.protocols.append(("lazy-eager-dynamic-overrides", done, len([v for v in ctx.violations[nbad0:] if v["key"].startswith("C19/dyn-twin")])))



# ------------------------------------------------------------------ entry points
def corpus_cases():
    here = os.path.dirname(os.path.dirname(os.path.dirname(os.path.abspath(__file__))))
    out = []
    for p in sorted(glob.glob(os.path.join(here, "corpus", "C19_*.json"))):
        d = json.load(open(p))
        out.append((os.path.basename(p), d))
    return out


def run_corpus(ctx, bt):
    for name, d in corpus_cases():
        ctx.count("corpus")
        replay_case(ctx, bt, d["case"])


def replay_case(ctx, bt, case):
    if "script" in case:
        sc = case["script"]
        run = run_script(ctx, bt, sc)
        if case.get("twin"):
            mon_twin(ctx, bt, sc, run, case)
        ans = leanrun.run_lines([request(sc)])[0]
        if real_answer(run) != ans:
            ctx.disagreement("corr:wiring:structure", {"real": real_answer(run)[:300], "model": ans[:300]}, {"script": sc})
    elif "run_spec" in case:
        paired_run(ctx, bt, case["run_spec"])
    elif "dyn" in case:
        dyn_pair(ctx, bt, case["dyn"])


def run(ctx, bt):
    Budget.tripped = 0
    run_corpus(ctx, bt)
    n = ctx.scale(400, 8000)
    scripts = [gen_script(ctx.rng) for _ in range(n)]
    wiring_protocol(ctx, bt, scripts, "wiring", twins=ctx.scale(200, 3000))
    ill = [gen_script(ctx.rng, ill=True) for _ in range(ctx.scale(150, 2500))]
    wiring_protocol(ctx, bt, ill, "wiring-illformed")
    pairs_protocol(ctx, bt, ctx.scale(60, 800))
    dyn_protocol(ctx, bt, ctx.scale(60, 1500))


def search(ctx, bt):
    """correspondence broke without a monitor failure: more scripts of the kinds that disagreed, twins included"""
    for _ in range(ctx.scale(100, 1000)):
        dyn_pair(ctx, bt, gen_dyn(ctx.rng))
        if ctx.violations:
            return
    for _ in range(ctx.scale(3000, 20000)):
        sc = gen_script(ctx.rng, ill=ctx.rng.random() < 0.3)
        ctx.evaluations += 1
        run = run_script(ctx, bt, sc)
        mon_twin(ctx, bt, sc, run, {"script": sc, "twin": True})
        if ctx.violations:
            return
    for _ in range(ctx.scale(60, 400)):
        paired_run(ctx, bt, R.gen_run_spec(ctx.rng))
        if ctx.violations:
            return


def replay(bt, data, ctx):
    replay_case(ctx, bt, data["case"])
