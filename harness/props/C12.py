"""C12 calendar and counting schedulers fire exactly on their boundaries.

Three things per generated case (harness/PLUGIN.md):
  * the REAL bt schedulers are executed through the public API (Strategy.setup / update / algo(strategy), and whole
    bt.Backtest runs with a recording algo behind the scheduler);
  * the Lean model (`sched` requests of the native driver) gets the same index / flags / parameters and must return
    the same booleans (and raise where the code raises); every timestamp also carries what pandas reports for it
    (value, quarter, week, isocalendar, weekday) and the Lean calendar must reproduce all of it;
  * the monitor evaluates the property text on the real results with period identifiers computed from the
    generator's own (proleptic ordinal, nanosecond-of-day) pairs through the standard library `datetime.date`
    only - neither pandas' calendar nor the model is consulted.
"""
import datetime
import glob
import json
import os
import zoneinfo

import numpy as np
import pandas as pd

from .. import leanrun

RULE = ("date indices generated as (proleptic ordinal, ns-of-day) lists in 13 families (daily, business, weekly, 4-weekly, "
        "same-day-of-month, k-monthly, intraday, sparse 1..400-day gaps, New-Year windows of every year 1678-2261 incl. all "
        "53-week years, first/last week of one year, leap-day windows incl. century years, edges of pandas' range, 1-3 date "
        "indices) x 3 timestamp units x 5 schedulers x 8 flag combinations, every row + pre-start row + foreign dates + "
        "None/0; counting schedulers with one call per date, repeated calls per date and out-of-order calls, whole "
        "bt.Backtest runs with a recorder; the same index families read as LOCAL wall-clock times of a time zone (east of, "
        "west of and at UTC, DST zones, half-hour and pre-standard-time offsets) and localized to a tz-aware index, direct and "
        "inside Backtest.run, judged on the local calendar fields.  distinct = (family, scheduler, flags/parameter class, "
        "size bucket, boundary-pattern bucket, mode incl. side of UTC and whether a local date differs from the UTC date)")
ASSUMPTIONS = [
    "pandas' calendar (Timestamp.year/month/day/quarter/week/isocalendar/weekday/value) is external: every generated "
    "timestamp (and, in the thorough tier, every day pandas' ns range can represent) is compared with the Lean calendar",
    "monitor's period identifiers come from datetime.date (ordinal, isocalendar) of the Python standard library",
    "tz-aware indices: the day/week/month/quarter/year of a tz-aware date is the one of its local wall-clock time (the fields "
    "the user supplied before tz_localize); the zone database is external - an index is only used when the instants pandas "
    "computes equal the ones the standard library zoneinfo computes and no local time is ambiguous or nonexistent; the model "
    "receives the local civil dates",
    "non-datetime indices are not generated",
]

HERE = os.path.dirname(os.path.dirname(os.path.dirname(os.path.abspath(__file__))))
NS_DAY = 86400 * 10 ** 9
EPOCH_ORD = 719163  # date(1970, 1, 1).toordinal()
KINDS = ["RunDaily", "RunWeekly", "RunMonthly", "RunQuarterly", "RunYearly"]
LO_ORD = datetime.date(1678, 1, 2).toordinal()
HI_ORD = datetime.date(2261, 12, 30).toordinal()


# ------------------------------------------------------------------ independent calendar of the monitor
def pid(kind, o):
    """period identifier of proleptic ordinal `o` (standard library only)"""
    if kind == 0:
        return o
    if kind == 1:
        return (o - 1) // 7            # ordinal 1 = Monday 0001-01-01
    d = datetime.date.fromordinal(o)
    if kind == 2:
        return d.year * 12 + d.month
    if kind == 3:
        return d.year * 4 + (d.month - 1) // 3
    return d.year


def ns_of(row):
    return (row[0] - EPOCH_ORD) * NS_DAY + row[1]


# ------------------------------------------------------------------ generators
def _anchor(rng):
    """a start ordinal, biased to period ends"""
    r = rng.random()
    if r < 0.45:
        y = rng.randint(1999, 2033)
    elif r < 0.9:
        y = rng.randint(1678, 2261)
    else:
        y = rng.choice([1699, 1700, 1799, 1800, 1899, 1900, 1999, 2000, 2099, 2100, 2199, 2200])
    r = rng.random()
    if r < 0.35:
        m, d = rng.choice([(12, 31), (12, 28), (12, 20), (3, 31), (6, 30), (9, 30), (2, 27), (1, 1), (1, 31), (10, 31)])
    else:
        m = rng.randint(1, 12)
        d = rng.randint(1, 28)
    o = datetime.date(y, m, d).toordinal() - rng.randint(0, 6)
    return min(max(o, LO_ORD), HI_ORD - 500)


def _tod(rng, grid):
    if grid == "s":
        return rng.randrange(0, 86400) * 10 ** 9
    if grid == "us":
        return rng.randrange(0, 86400 * 10 ** 6) * 1000
    return rng.randrange(0, NS_DAY)


def _add_months(y, m, k):
    t = y * 12 + (m - 1) + k
    return t // 12, t % 12 + 1


def _clip(rows):
    rows = sorted(set((o, t) for o, t in rows if LO_ORD <= o <= HI_ORD))
    return rows


def gen_index(rng, family, maxn):
    """-> (rows [(ordinal, tod)], unit)"""
    n = rng.choice([1, 2, 3, 3, 4, 5, 6, 8, 10, 14, 20, 30, maxn])
    n = min(n, maxn)
    unit = rng.choice(["ns", "us", "s"])
    grid = unit
    base_tod = 0 if rng.random() < 0.6 else _tod(rng, grid)
    a = _anchor(rng)
    rows = []
    if family == "daily":
        rows = [(a + i, base_tod) for i in range(n)]
    elif family == "bdays":
        o = a
        while len(rows) < n:
            if (o - 1) % 7 < 5:
                rows.append((o, base_tod))
            o += 1
    elif family == "weekly":
        rows = [(a + 7 * i, base_tod) for i in range(n)]
    elif family == "fourweekly":
        rows = [(a + 28 * i, base_tod) for i in range(n)]
    elif family == "same-dom":
        d0 = datetime.date.fromordinal(a)
        dom = rng.choice([1, 15, d0.day, 28, 31])
        for i in range(n):
            y, m = _add_months(d0.year, d0.month, i)
            last = (datetime.date(*_add_months(y, m, 1), 1) - datetime.timedelta(days=1)).day
            rows.append((datetime.date(y, m, min(dom, last)).toordinal(), base_tod))
    elif family == "k-monthly":
        d0 = datetime.date.fromordinal(a)
        k = rng.choice([2, 3, 6, 12, 12])
        dom = min(d0.day, 28)
        for i in range(min(n, 12)):
            y, m = _add_months(d0.year, d0.month, i * k)
            if y > 2261:
                break
            rows.append((datetime.date(y, m, dom).toordinal(), base_tod))
    elif family == "intraday":
        o = a
        while len(rows) < n:
            if rng.random() < 0.8:
                for _ in range(rng.choice([1, 1, 2, 3, 4])):
                    rows.append((o, rng.choice([0, NS_DAY - (1 if grid == "ns" else 10 ** 9 if grid == "s" else 1000)])
                                 if rng.random() < 0.25 else _tod(rng, grid)))
            o += rng.choice([1, 1, 1, 2, 3])
    elif family == "sparse":
        o = a
        for i in range(n):
            rows.append((o, base_tod if rng.random() < 0.7 else _tod(rng, grid)))
            o += int(round(400 ** rng.random()))
    elif family == "newyear":
        y = datetime.date.fromordinal(a).year
        j = datetime.date(y + 1, 1, 1).toordinal()
        days = list(range(j - rng.randint(2, 14), j + rng.randint(2, 14)))
        keep = rng.random() * 0.6 + 0.35
        rows = [(o, base_tod) for o in days if rng.random() < keep]
    elif family == "year-span":
        # days of the first and of the last week of one calendar year (RunWeekly: equal year, maybe equal week number)
        y = datetime.date.fromordinal(a).year
        j0 = datetime.date(y, 1, 1).toordinal()
        j1 = datetime.date(y, 12, 31).toordinal()
        rows = [(o, base_tod) for o in range(j0 - 3, j0 + 5) if rng.random() < 0.45]
        rows += [(o, base_tod) for o in range(j1 - 5, j1 + 4) if rng.random() < 0.45]
    elif family == "leapday":
        y = rng.choice([1700, 1800, 1900, 2000, 2100, 2200] + [datetime.date.fromordinal(a).year] * 6)
        j = datetime.date(y, 3, 1).toordinal()
        rows = [(o, base_tod) for o in range(j - 6, j + 5) if rng.random() < 0.6]
    elif family == "range-edge":
        o = LO_ORD + rng.randint(0, 40) if rng.random() < 0.5 else HI_ORD - rng.randint(40, 400)
        for i in range(n):
            rows.append((o, base_tod))
            o += rng.choice([1, 1, 2, 7, 30])
    elif family == "tiny":
        k = rng.choice([1, 1, 2, 2, 3])
        o = a
        for i in range(k):
            rows.append((o, base_tod))
            o += rng.choice([1, 1, 3, 7, 31, 366])
    else:
        raise ValueError(family)
    rows = _clip(rows)
    if not rows:
        rows = [(a, base_tod)]
    return rows[:maxn], unit


FAMILIES = ["daily", "bdays", "weekly", "fourweekly", "same-dom", "k-monthly", "intraday", "sparse", "newyear",
            "year-span", "leapday", "range-edge", "tiny"]


def make_pd_index(rows, unit, tz=None):
    """tz given: the rows are local wall-clock times of that zone (what a user has before `tz_localize`)"""
    arr = np.array([ns_of(r) for r in rows], dtype="int64").view("datetime64[ns]")
    idx = pd.DatetimeIndex(arr)
    if unit != "ns":
        idx = idx.as_unit(unit)
    if tz:
        idx = idx.tz_localize(tz)
    return idx


# ------------------------------------------------------------------ tz-aware indices (local wall-clock rows)
TZ_EAST = ["Asia/Tokyo", "Australia/Sydney", "Europe/Berlin", "Pacific/Auckland", "Asia/Kolkata", "Asia/Hong_Kong",
           "Pacific/Kiritimati", "Europe/London"]
TZ_WEST = ["America/New_York", "America/Chicago", "America/Los_Angeles", "America/Sao_Paulo", "Pacific/Honolulu"]
_UTC = datetime.timezone.utc


def _local_dt(row, tz):
    d = datetime.date.fromordinal(row[0])
    us = row[1] // 1000
    return datetime.datetime(d.year, d.month, d.day, us // 3600000000, us // 60000000 % 60, us // 1000000 % 60, us % 1000000,
                             tzinfo=zoneinfo.ZoneInfo(tz))


def tz_instant(row, tz):
    """UTC nanoseconds of the local wall-clock time `row` in zone `tz` by the standard library; None when that wall-clock
    time does not exist or exists twice (DST change)"""
    dt = _local_dt(row, tz)
    off = dt.utcoffset()
    if dt.replace(fold=1).utcoffset() != off:
        return None
    back = dt.astimezone(_UTC).astimezone(dt.tzinfo)
    if back.replace(tzinfo=None) != dt.replace(tzinfo=None):
        return None
    return ns_of(row) - ((off.days * 86400 + off.seconds) * 10 ** 9 + off.microseconds * 1000)


def tz_frows(rows, unit, tz, fidx):
    """local (ordinal, tod) rows of the full index of a tz-aware run: row 0 is the synthetic row (its local date is never
    read by the property text: a placeholder one day before the first date), rows 1.. are the data dates - checked to be
    the very instants of the user's index"""
    want = [pd.Timestamp(t).value for t in make_pd_index(rows, unit, tz)]
    got = [pd.Timestamp(t).value for t in fidx[1:]]
    if want != got or not pd.Timestamp(fidx[0]).value < got[0]:
        return None
    return [(rows[0][0] - 1, rows[0][1])] + list(rows)


# ------------------------------------------------------------------ wire format
def wire(ts):
    """what pandas reports for a timestamp (civil fields + derived quantities the Lean calendar must reproduce)"""
    ts = pd.Timestamp(ts)
    v = ts.value
    iso = ts.isocalendar()
    return "%d %d %d %d %d %d %d %d %d" % (ts.year, ts.month, ts.day, v - ts.normalize().value, v, ts.quarter, ts.week,
                                           iso[0], ts.weekday())


def exc_kind(e):
    return "E:" + type(e).__name__


# ------------------------------------------------------------------ executing the real code
def full_index(bt, rows, unit, tz=None):
    """the index a Backtest feeds to the strategy: real synthetic row + data (read off a real bt.Backtest)"""
    idx = make_pd_index(rows, unit, tz)
    data = pd.DataFrame(100.0, index=idx, columns=["a"])
    t = bt.Backtest(bt.Strategy("probe", []), data, progress_bar=False)
    return data, t.data


def make_period_algo(bt, kind, flags):
    cls = getattr(bt.algos, KINDS[kind])
    return cls(run_on_first_date=bool(flags[0]), run_on_end_of_period=bool(flags[1]), run_on_last_date=bool(flags[2]))


def call(algo, s):
    try:
        r = algo(s)
    except Exception as e:  # noqa
        return exc_kind(e)
    if isinstance(r, (bool, np.bool_)):
        return bool(r)
    return "T:" + type(r).__name__


def exec_period(bt, case):
    """direct mode.  returns {combo_index: {"rows":[...], "zero":r, "none":r, "outside":[...]}}, full pandas index"""
    rows = [tuple(r) for r in case["rows"]]
    _, fdata = full_index(bt, rows, case["unit"], case.get("tz"))
    fidx = fdata.index
    algos = [make_period_algo(bt, k, f) for k, f in case["combos"]]
    s = bt.Strategy("s", list(algos))
    s.setup(fdata)
    out = [{"rows": [], "outside": []} for _ in algos]
    for a, o in zip(algos, out):
        o["zero"] = call(a, s)               # now == 0: before the first update
    for d in fidx:
        s.update(d)
        for a, o in zip(algos, out):
            o["rows"].append(call(a, s))
    outside_ts = []
    for r in case.get("outside", []):
        ts = pd.Timestamp(ns_of(tuple(r)))
        if case.get("tz"):
            ts = ts.tz_localize(case["tz"])
        outside_ts.append(ts)
        try:
            s.update(ts, inow=len(fidx) - 1)
        except Exception:
            s.now = ts
        for a, o in zip(algos, out):
            o["outside"].append(call(a, s))
    s.now = None
    for a, o in zip(algos, out):
        o["none"] = call(a, s)
    return out, fidx, outside_ts


def recorder_class(bt):
    class Recorder(bt.Algo):
        def __init__(self):
            super(Recorder, self).__init__()
            self.fired = []

        def __call__(self, target):
            self.fired.append(pd.Timestamp(target.now).value)
            return True
    return Recorder


def exec_backtest(bt, rows, unit, algo, tz=None):
    """whole run: [scheduler, recorder]; returns (fired ns list, full pandas index)"""
    idx = make_pd_index(rows, unit, tz)
    data = pd.DataFrame(100.0 + np.arange(len(idx)), index=idx, columns=["a"])
    if len(idx) >= 2 and (int(pd.Timestamp(idx[0]).value // 10 ** 9) + len(idx)) % 3 == 0:
        # a universe that lists on the second date (a table built with pct_change / reindexed to start early): the first row of the
        # data is entirely NaN - it is still the first date of the run, not the synthetic row
        data.iloc[0, 0] = np.nan
    rec = recorder_class(bt)()
    s = bt.Strategy("s", [algo, rec])
    t = bt.Backtest(s, data, progress_bar=False)
    t.run()
    rec = [a for a in t.strategy.stack.algos if type(a).__name__ == "Recorder"][0]
    return list(rec.fired), t.data.index


# ------------------------------------------------------------------ monitor (property text on the real results)
def spec_row(kind, flags, ords, i):
    """ords: ordinals of the full index (row 0 synthetic).  the property text for row i"""
    first, eop, last = flags
    n = len(ords)
    if i == 0:
        return False
    fire = False
    if i == 1 and first:
        fire = True
    if i == n - 1 and last:
        fire = True
    if not eop and i >= 2 and pid(kind, ords[i]) != pid(kind, ords[i - 1]):
        fire = True
    if eop and i + 1 <= n - 1 and pid(kind, ords[i]) != pid(kind, ords[i + 1]):
        fire = True
    return fire


def row_class(i, n):
    if i == 0:
        return "pre-start-row"
    if n == 2:
        return "single-row"
    if i == 1:
        return "first-row"
    if i == n - 1:
        return "last-row"
    return "interior"


def violation_key(kind, flags, ords, i, got):
    """structural key of a monitor failure at row i (got = what the real code returned, a bool)"""
    first, eop, last = flags
    n = len(ords)
    rc = row_class(i, n)
    direction = "spurious" if got else "missed"
    if direction == "missed":
        if rc == "single-row" and not first and last:
            return "C12/RunPeriod:single-row:missed:last-flag-only"
        if rc in ("first-row", "single-row") and not first and eop and n > 2 and pid(kind, ords[1]) != pid(kind, ords[2]):
            return "C12/RunPeriod:first-row:missed:period-ends-flag-off"
        if rc == "last-row" and not last and not eop and pid(kind, ords[i]) != pid(kind, ords[i - 1]):
            return "C12/RunPeriod:last-row:missed:new-period-flag-off"
    if kind == 1 and rc == "interior":
        j = i + 1 if eop else i - 1
        a = datetime.date.fromordinal(ords[i])
        b = datetime.date.fromordinal(ords[j])
        same_week = pid(1, ords[i]) == pid(1, ords[j])
        if got and same_week and a.year != b.year:
            return "C12/RunWeekly:interior:spurious:same-week-across-new-year"
        if not got and not same_week and a.year == b.year and a.isocalendar()[1] == b.isocalendar()[1]:
            return "C12/RunWeekly:interior:missed:distinct-weeks-same-year-and-week-number"
    return "C12/%s:%s:%s" % (KINDS[kind], rc, direction)


def fmt_row(r):
    d = datetime.date.fromordinal(r[0])
    return d.isoformat() + ("" if r[1] == 0 else "+%dns" % r[1])


def monitor_period(ctx, case, ci, real, frows, mode):
    """real: list of results for rows 0..n-1 of the full index (frows = [(ordinal, tod)] incl. synthetic row)"""
    kind, flags = case["combos"][ci]
    ords = [r[0] for r in frows]
    n = len(ords)
    one = dict(case)
    one["combos"] = [case["combos"][ci]]
    for i, got in enumerate(real):
        rc = row_class(i, n)
        if not isinstance(got, bool):
            ctx.count("monitor:raised-or-nonbool")
            ctx.violation("C12/%s:%s:raised:%s" % (KINDS[kind], rc, got),
                          "%s%s on index %s at row %d (%s) returned/raised %s" % (KINDS[kind], tuple(flags), [fmt_row(r) for r in frows], i,
                                                                                 fmt_row(frows[i]), got), one)
            continue
        exp = spec_row(kind, flags, ords, i)
        ctx.count("monitor:%s:%s" % (rc, "fire" if exp else "silent"))
        if got != exp:
            key = violation_key(kind, flags, ords, i, got)
            ctx.count("monitor-failure:" + key)
            ctx.violation(key, "%s(first=%s, end_of_period=%s, last=%s) [%s] on index %s (row 0 = synthetic): row %d = %s returned %s, "
                          "the property text says %s" % (KINDS[kind], bool(flags[0]), bool(flags[1]), bool(flags[2]), mode,
                                                         [fmt_row(r) for r in frows], i, fmt_row(frows[i]), got, exp), one)


def monitor_never(ctx, case, ci, what, got):
    kind, flags = case["combos"][ci]
    ctx.count("monitor:%s" % what)
    if got is not False:
        one = dict(case)
        one["combos"] = [case["combos"][ci]]
        tag = "spurious" if got is True else "raised:%s" % got
        ctx.violation("C12/%s:%s:%s" % (KINDS[kind], what, tag),
                      "%s%s returned %s for %s (index %s)" % (KINDS[kind], tuple(flags), got, what, [fmt_row(tuple(r)) for r in case["rows"]]), one)


# ------------------------------------------------------------------ model side
def lean_results(ans):
    """'ok <calbad> <n> r…' -> (calbad, [True/False/'E'])"""
    t = ans.split()
    if not t or t[0] != "ok":
        return None, ans
    calbad = int(t[1])
    n = int(t[2])
    rs = [True if x == "1" else False if x == "0" else "E" for x in t[3:3 + n]]
    return calbad, rs


def lean_bools(ans):
    t = ans.split()
    if not t or t[0] != "ok":
        return ans
    n = int(t[1])
    return [True if x == "1" else False if x == "0" else "E" for x in t[2:2 + n]]


def norm_real(r):
    return r if isinstance(r, bool) else "E"


class Batch:
    """collects model requests; compares after one driver round trip"""

    def __init__(self, ctx):
        self.ctx = ctx
        self.lines = []
        self.todo = []    # (protocol, expected(list), replay_case, describe)
        self.stats = {}

    def add(self, proto, line, expected, case, cal=False):
        self.lines.append(line)
        self.todo.append((proto, expected, case, cal))

    def flush(self):
        if not self.lines:
            return
        answers = leanrun.run_lines(self.lines)
        for (proto, expected, case, cal), ans in zip(self.todo, answers):
            st = self.stats.setdefault(proto, [0, 0])
            if cal:
                calbad, got = lean_results(ans)
                cs = self.stats.setdefault("sched:calendar-of-generated-timestamps", [0, 0])
                cs[0] += 1
                if calbad is None or calbad != 0:
                    cs[1] += 1
                    self.ctx.disagreement("corr:sched:calendar", {"answer": ans[:200], "note": "Lean calendar differs from pandas on a generated timestamp"}, case)
            else:
                got = lean_bools(ans)
            st[0] += 1
            exp = [norm_real(r) for r in expected]
            if got != exp:
                st[1] += 1
                self.ctx.disagreement("corr:" + proto, {"real": exp, "model": got if isinstance(got, list) else str(got)[:200]}, case)
        self.lines = []
        self.todo = []

    def report(self):
        for proto, (n, bad) in sorted(self.stats.items()):
            self.ctx.protocols.append((proto, n, bad))


def period_line(kind, flags, fidx, queries):
    ws = " ".join(wire(t) for t in fidx)
    return "sched period %d %d %d %d %d %s %d %s" % (kind, flags[0], flags[1], flags[2], len(fidx), ws, len(queries), " ".join(queries))


# ------------------------------------------------------------------ period cases
def frows_of(fidx):
    """(ordinal, tod) of the full index, recomputed from the nanosecond values by integer arithmetic"""
    out = []
    for t in fidx:
        v = pd.Timestamp(t).value
        out.append((v // NS_DAY + EPOCH_ORD, v % NS_DAY))
    return out


def run_period_case(ctx, bt, case, batch, monitor=True):
    rows = [tuple(r) for r in case["rows"]]
    tz = case.get("tz")
    out, fidx, outside_ts = exec_period(bt, case)
    if tz:
        # tz-aware index: the rows are the local wall-clock times; the property text is read on them, and the model gets the
        # local civil dates (a naive index with the same wall-clock fields)
        frows = tz_frows(rows, case["unit"], tz, fidx)
        if frows is None:
            raise RuntimeError("harness: tz-aware index round trip failed")
        widx = make_pd_index(frows, case["unit"])
        wout = [pd.Timestamp(ns_of(tuple(r))) for r in case.get("outside", [])]
        proto, mode, label = "sched:period[tz-aware index, local civil dates]", "direct, tz-aware index in " + tz, "direct-tz:" + tz_class(rows, tz)
    else:
        frows = frows_of(fidx)
        if frows[1:] != rows:
            raise RuntimeError("harness: index round trip failed")
        if frows[0] != (rows[0][0] - 1, rows[0][1]):
            ctx.violation("C12/Backtest:synthetic-row-not-one-day-before-first-date", "synthetic row %s for first date %s" % (fmt_row(frows[0]), fmt_row(rows[0])), case)
        widx, wout = fidx, outside_ts
        proto, mode, label = "sched:period", "direct", "direct"
    n = len(fidx)
    queries = ["N", "N"] + ["I %d" % i for i in range(n)] + ["S " + wire(t) for t in wout]
    for ci, (kind, flags) in enumerate(case["combos"]):
        o = out[ci]
        expected = [o["zero"], o["none"]] + o["rows"] + o["outside"]
        one = dict(case)
        one["combos"] = [case["combos"][ci]]
        batch.add(proto, period_line(kind, flags, widx, queries), expected, one, cal=True)
        if monitor and case.get("wellformed", True):
            monitor_period(ctx, case, ci, o["rows"], frows, mode)
            monitor_never(ctx, case, ci, "now-is-0-before-first-update", o["zero"])
            monitor_never(ctx, case, ci, "now-is-None", o["none"])
            for r in o["outside"]:
                monitor_never(ctx, case, ci, "outside-data", r)
        ctx.evaluations += 1
        nb = sum(1 for i in range(2, n) if pid(kind, frows[i][0]) != pid(kind, frows[i - 1][0]))
        ctx.classes.add((case["family"], kind, tuple(flags), min(n, 12) // 3, min(nb, 3), label))
        if tz:
            ctx.count("tz:direct:combos")
        ctx.count("period:kind:" + KINDS[kind])
        ctx.count("period:flags:%d%d%d" % tuple(flags))
        ctx.count("period:boundaries-in-index:%s" % (nb if nb < 3 else "3+"))


def run_period_backtest_case(ctx, bt, case, batch):
    """whole Backtest with a recorder behind the scheduler"""
    rows = [tuple(r) for r in case["rows"]]
    kind, flags = case["combos"][0]
    algo = make_period_algo(bt, kind, flags)
    tz = case.get("tz")
    try:
        fired, fidx = exec_backtest(bt, rows, case["unit"], algo, tz)
    except Exception as e:  # noqa
        ctx.violation("C12/%s:backtest:raised:%s" % (KINDS[kind], type(e).__name__), "Backtest over %s%s raised %r"
                      % ([fmt_row(r) for r in rows], " (local times, " + tz + ")" if tz else "", e), case)
        return
    if tz:
        frows = tz_frows(rows, case["unit"], tz, fidx) if len(fidx) == len(rows) + 1 else None
    else:
        frows = frows_of(fidx)
    if frows is None or frows[1:] != rows or frows[0] != (rows[0][0] - 1, rows[0][1]):
        # the schedulers' "first date" is the first date of the DATA: the run's index is the synthetic row followed by every data date
        ctx.violation("C12/Backtest:index-is-not-synthetic-row-plus-data-dates", "data dates %s%s (first row all-NaN: %s) but the run's index is %s"
                      % ([fmt_row(r) for r in rows][:4], " (local times, " + tz + ")" if tz else "",
                         len(rows) >= 2 and (int(pd.Timestamp(make_pd_index(rows, case["unit"], tz)[0]).value // 10 ** 9) + len(rows)) % 3 == 0,
                         [str(t) for t in fidx][:5] if frows is None else [fmt_row(r) for r in frows][:5]), case)
        return
    nss = [pd.Timestamp(t).value for t in fidx]
    if len(set(fired)) != len(fired) or any(f not in nss[1:] for f in fired):
        ctx.violation("C12/%s:backtest:fired-on-foreign-or-repeated-date" % KINDS[kind], "fired %s" % fired, case)
        return
    real = [False] + [v in fired for v in nss[1:]]
    if nss[0] in fired:
        real[0] = True
    monitor_period(ctx, case, 0, real, frows, "Backtest.run, tz-aware index in " + tz if tz else "Backtest.run")
    queries = ["I %d" % i for i in range(len(fidx))]
    if tz:
        batch.add("sched:period[Backtest.run, tz-aware index, local civil dates]", period_line(kind, flags, make_pd_index(frows, case["unit"]), queries),
                  real, case, cal=True)
        ctx.count("tz:backtest-runs")
    else:
        batch.add("sched:period[Backtest.run]", period_line(kind, flags, fidx, queries), real, case, cal=True)
    ctx.evaluations += 1
    ctx.classes.add((case["family"], kind, tuple(flags), min(len(fidx), 12) // 3, "backtest-tz:" + tz_class(rows, tz) if tz else "backtest"))
    ctx.count("period:backtest-runs")


def gen_period_case(ctx, rng, maxn, ncombos):
    family = rng.choice(FAMILIES)
    rows, unit = gen_index(rng, family, maxn)
    combos = []
    seen = set()
    while len(combos) < ncombos:
        c = (rng.randrange(5), (rng.randrange(2), rng.randrange(2), rng.randrange(2)))
        if c not in seen:
            seen.add(c)
            combos.append([c[0], list(c[1])])
    have = set(ns_of(r) for r in rows) | {ns_of((rows[0][0] - 1, rows[0][1]))}
    outside = []
    for _ in range(rng.choice([0, 1, 2, 3])):
        r = rng.random()
        if r < 0.3:
            o = (rows[0][0] - rng.randint(2, 400), rows[0][1])
        elif r < 0.6:
            o = (rows[-1][0] + rng.randint(1, 400), rows[-1][1])
        elif r < 0.8:
            b = rng.choice(rows)
            o = (b[0], (b[1] + rng.choice([1, 1000, 10 ** 9, 3600 * 10 ** 9])) % NS_DAY)   # same day, other time
        else:
            o = (rng.randint(rows[0][0], rows[-1][0] + 1), rows[0][1])
        if ns_of(o) not in have and LO_ORD - 60 <= o[0] <= HI_ORD + 60:
            outside.append(list(o))
    ctx.count("gen:family:" + family)
    ctx.count("gen:unit:" + unit)
    ctx.count("gen:rows:%s" % (len(rows) if len(rows) < 4 else "4-9" if len(rows) < 10 else "10+"))
    return {"mode": "period", "family": family, "rows": [list(r) for r in rows], "unit": unit, "combos": combos,
            "outside": outside, "wellformed": True}


def tz_class(rows, tz):
    """side of UTC of the zone on this index + whether some local calendar date differs from the UTC date of its instant"""
    offs = [ns_of(r) - tz_instant(r, tz) for r in rows]
    side = "utc" if not any(offs) else "east" if [o for o in offs if o][0] > 0 else "west"
    differs = any((ns_of(r) - o) // NS_DAY != ns_of(r) // NS_DAY for r, o in zip(rows, offs))
    return side + (":local-date!=utc-date" if differs else ":same-date")


def gen_tz_case(ctx, rng, maxn, ncombos):
    """an index of the usual families read as local wall-clock times of a zone (daily bars stamped at local midnight, local
    session times, ...) and localized - what a user of exchange-local data has.  None when the zone data of pandas and of the
    standard library differ on it (not judged)"""
    case = gen_period_case(ctx, rng, maxn, ncombos)
    r = rng.random()
    tz = rng.choice(TZ_EAST) if r < 0.6 else rng.choice(TZ_WEST) if r < 0.9 else "UTC"
    rows = [tuple(x) for x in case["rows"]]
    if rng.random() < 0.3:
        # a session time on the other side of UTC midnight than the local one is likely: early morning / late evening
        tod = rng.choice([0, 3600, 9 * 3600, 15 * 3600, 18 * 3600, 21 * 3600, 23 * 3600 + 1800]) * 10 ** 9
        rows = sorted(set((o, tod) for o, _ in rows))
    rows = [x for x in rows if tz_instant(x, tz) is not None]
    inst = [tz_instant(x, tz) for x in rows]
    if not rows or any(b <= a for a, b in zip(inst, inst[1:])):
        ctx.count("tz:not-judged:no-unambiguous-increasing-local-times")
        return None
    try:
        got = [pd.Timestamp(t).value for t in make_pd_index(rows, case["unit"], tz)]
    except Exception as e:  # noqa
        ctx.count("tz:not-judged:tz_localize-raised:" + type(e).__name__)
        return None
    if got != inst:
        ctx.count("tz:not-judged:pandas-and-zoneinfo-instants-differ")
        return None
    case["rows"] = [list(x) for x in rows]
    case["tz"] = tz
    have = set(ns_of(x) for x in rows) | {ns_of((rows[0][0] - 1, rows[0][1]))}
    case["outside"] = [x for x in case["outside"] if ns_of(tuple(x)) not in have and tz_instant(tuple(x), tz) is not None
                       and tz_instant(tuple(x), tz) not in inst]
    ctx.count("tz:zone:" + tz)
    ctx.count("tz:index:" + tz_class(rows, tz))
    return case


def twin_case(rng, case):
    rows = [tuple(r) for r in case["rows"]]
    for _ in range(6):
        k = rng.randint(1, len(rows) - 2)
        o = (rows[k][0] + rng.choice([-1, 1, -2, 2]), rows[k][1])
        if ns_of(rows[k - 1]) < ns_of(o) < ns_of(rows[k + 1]):
            tw = dict(case)
            tw["rows"] = [list(r) for r in rows[:k]] + [list(o)] + [list(r) for r in rows[k + 1:]]
            have = set(ns_of(tuple(r)) for r in tw["rows"]) | {ns_of((rows[0][0] - 1, rows[0][1]))}
            tw["outside"] = [x for x in case["outside"] if ns_of(tuple(x)) not in have]
            tw["after"] = {k_: v for k_, v in case.items() if k_ != "after"}
            return tw
    return None


def all_combos():
    return [[k, [a, b, c]] for k in range(5) for a in (0, 1) for b in (0, 1) for c in (0, 1)]


# ------------------------------------------------------------------ ill-formed indices (duplicates / not sorted)
def run_illformed_case(ctx, bt, rng, batch):
    family = rng.choice(["daily", "bdays", "sparse", "intraday", "newyear"])
    rows, unit = gen_index(rng, family, 8)
    if len(rows) < 3:
        return
    what = rng.choice(["duplicate", "unsorted"])
    rows = list(rows)
    if what == "duplicate":
        i = rng.randrange(1, len(rows))
        rows.insert(i, rows[i])
    else:
        i = rng.randrange(1, len(rows) - 1)
        rows[i], rows[i + 1] = rows[i + 1], rows[i]
    kind = rng.randrange(5)
    flags = [rng.randrange(2), rng.randrange(2), rng.randrange(2)]
    case = {"mode": "illformed", "family": family, "rows": [list(r) for r in rows], "unit": unit, "combos": [[kind, flags]], "what": what}
    exec_illformed(ctx, bt, case, batch)


def exec_illformed(ctx, bt, case, batch):
    rows = [tuple(r) for r in case["rows"]]
    kind, flags = case["combos"][0]
    # the synthetic row is prepended by hand (Backtest would do the same: first label - 1 day)
    frows = [(rows[0][0] - 1, rows[0][1])] + rows
    fidx = make_pd_index(frows, case["unit"])
    fdata = pd.DataFrame(100.0, index=fidx, columns=["a"])
    algo = make_period_algo(bt, kind, flags)
    s = bt.Strategy("s", [algo])
    s.setup(fdata)
    real = []
    for i, d in enumerate(fidx):
        try:
            s.update(d, inow=i)
        except Exception:
            s.now = d
        real.append(call(algo, s))
    queries = ["I %d" % i for i in range(len(fidx))]
    batch.add("sched:period[ill-formed index]", period_line(kind, flags, fidx, queries), real, case, cal=True)
    ctx.evaluations += 1
    ctx.count("illformed:" + case["what"])
    for r in real:
        if not isinstance(r, bool):
            ctx.count("illformed:real-raised:" + r)
    ctx.classes.add(("illformed", case["what"], kind, tuple(flags)))


# ------------------------------------------------------------------ counting and date schedulers
def date_param(rng, row, allow_str=True):
    """a constructor argument describing the instant `row`, in one of the forms a user would pass"""
    forms = ["timestamp", "np64"]
    if row[1] % 1000 == 0:
        forms += ["datetime", "isostr"]
    if row[1] == 0:
        forms += ["datestr", "datestr"]
    return [row[0], row[1], rng.choice(forms)]


def build_date_param(p):
    o, tod, form = p
    v = (o - EPOCH_ORD) * NS_DAY + tod
    d = datetime.date.fromordinal(o)
    if form == "timestamp":
        return pd.Timestamp(v)
    if form == "np64":
        return np.datetime64(v, "ns")
    us = tod // 1000
    dt = datetime.datetime(d.year, d.month, d.day, us // 3600000000, us // 60000000 % 60, us // 1000000 % 60, us % 1000000)
    if form == "datetime":
        return dt
    if form == "isostr":
        return dt.isoformat(sep=" ")
    return d.isoformat()


def make_count_algo(bt, case):
    a = case["algo"]
    p = case["params"]
    if a == "RunOnce":
        return bt.algos.RunOnce()
    if a == "RunOnDate":
        return bt.algos.RunOnDate(*[build_date_param(x) for x in p["dates"]])
    if a == "RunAfterDate":
        return bt.algos.RunAfterDate(build_date_param(p["date"]))
    if a == "RunAfterDays":
        return bt.algos.RunAfterDays(p["days"])
    if a == "RunEveryNPeriods":
        if p.get("default_offset"):
            return bt.algos.RunEveryNPeriods(p["n"])
        return bt.algos.RunEveryNPeriods(p["n"], offset=p["offset"])
    raise ValueError(a)


def count_line(case, nows):
    """nows: list of ns ints or None (sentinel)"""
    a = case["algo"]
    p = case["params"]
    calls = "%d %s" % (len(nows), " ".join("N" if v is None else str(v) for v in nows))
    if a == "RunOnce":
        return "sched once " + calls
    if a == "RunOnDate":
        ds = [ns_of((x[0], x[1])) for x in p["dates"]]
        return "sched ondate %d %s %s" % (len(ds), " ".join(map(str, ds)), calls)
    if a == "RunAfterDate":
        return "sched afterdate %d %s" % (ns_of((p["date"][0], p["date"][1])), calls)
    if a == "RunAfterDays":
        return "sched afterdays %d %s" % (p["days"], calls)
    return "sched everyn %d %d %s" % (p["n"], 0 if p.get("default_offset") else p["offset"], calls)


def spec_count(case, nows):
    """the property text on a call sequence (None = cannot be judged from the text); nows are ns ints"""
    a = case["algo"]
    p = case["params"]
    regime = case["regime"]
    if case.get("pre0") and a in ("RunAfterDate", "RunAfterDays"):
        return None      # a call before the first update (now == 0): RunAfterDate raises; the text says nothing about it
    if a == "RunOnce":
        return [k == 0 for k in range(len(nows))]
    if a == "RunOnDate":
        ds = set(ns_of((x[0], x[1])) for x in p["dates"])
        return [v in ds for v in nows]
    if a == "RunAfterDate":
        dv = ns_of((p["date"][0], p["date"][1]))
        return [v > dv for v in nows]
    if a == "RunAfterDays":
        if regime != "one-call-per-date":
            return None
        return [k >= p["days"] for k in range(len(nows))]
    if a == "RunEveryNPeriods":
        n = p["n"]
        off = 0 if p.get("default_offset") else p["offset"]
        if regime == "out-of-order" or n < 1 or off < 0:
            return None
        out = []
        seen = set()
        for v in nows:
            if v is None or v in seen:   # None: the strategy has no date yet
                out.append(False)
                continue
            c = len(seen)
            seen.add(v)
            out.append(c >= off and (c - off) % n == 0)
        return out
    raise ValueError(a)


def count_key(case, k, nows, got):
    a = case["algo"]
    first_on_date = nows[k] is not None and nows[k] not in nows[:k]
    if not isinstance(got, bool):
        return "C12/%s:raised:%s" % (a, got)
    return "C12/%s:%s:%s" % (a, "first-call-on-date" if first_on_date else "repeated-call-on-date", "spurious" if got else "missed")


def exec_count(bt, case):
    rows = [tuple(r) for r in case["rows"]]
    _, fdata = full_index(bt, rows, case["unit"])
    fidx = fdata.index
    algo = make_count_algo(bt, case)
    s = bt.Strategy("s", [algo])
    s.setup(fdata)
    real = []
    nows = []
    if case.get("pre0"):
        real.append(call(algo, s))
        nows.append(None)
    for c in case["calls"]:
        s.update(fidx[c])
        real.append(call(algo, s))
        nows.append(pd.Timestamp(fidx[c]).value)
    return real, nows, fidx


def run_count_case(ctx, bt, case, batch):
    real, nows, fidx = exec_count(bt, case)
    batch.add("sched:" + case["algo"], count_line(case, nows), real, case)
    ctx.evaluations += 1
    ctx.count("count:algo:" + case["algo"])
    ctx.count("count:regime:" + case["regime"] + (":pre0" if case.get("pre0") else ""))
    frows = frows_of(fidx)
    gen_nows = [None if c is None else ns_of(frows[c]) for c in ([None] if case.get("pre0") else []) + list(case["calls"])]
    exp = spec_count(case, gen_nows)
    ctx.classes.add((case["family"], case["algo"], case["pclass"], case["regime"], bool(case.get("pre0")), min(len(case["calls"]), 12) // 4, "direct"))
    if exp is None:
        ctx.count("count:monitor-not-applicable(correspondence only)")
        return
    for k, (g, e) in enumerate(zip(real, exp)):
        ctx.count("monitor:count:%s" % ("fire" if e else "silent"))
        if g != e:
            key = count_key(case, k, gen_nows, g)
            seq = ([None] if case.get("pre0") else []) + list(case["calls"])
            ctx.violation(key, "%s(%s) regime %s: call %d (date %s, calls so far on rows %s) returned %s, the property text says %s"
                          % (case["algo"], json.dumps(case["params"]), case["regime"], k,
                             "none yet (now == 0)" if seq[k] is None else fmt_row(frows[seq[k]]), seq[:k + 1], g, e), case)


def run_or_case(ctx, bt, rng, maxn):
    """schedulers combined with `Or` (the documented way to combine run signals): every member is a scheduler in its own right - it
    sees every call, whatever the other members answer - so the combination fires exactly when some member, evaluated on its own
    over the same calls, fires"""
    c1 = gen_count_case(ctx, rng, maxn)
    c2 = gen_count_case(ctx, rng, maxn)
    c3 = gen_count_case(ctx, rng, maxn)
    members = [c1, c2] + ([c3] if rng.random() < 0.3 else [])
    rng.shuffle(members)
    rows = [tuple(r) for r in c1["rows"]]
    for m in members:
        m["rows"], m["unit"] = c1["rows"], c1["unit"]
        if m["algo"] in ("RunOnDate", "RunAfterDate"):        # parameters drawn for another index: re-draw on this one
            if m["algo"] == "RunOnDate":
                m["params"] = {"dates": [date_param(rng, rng.choice(rows)) for _ in range(rng.choice([1, 2, 3]))]}
            else:
                m["params"] = {"date": date_param(rng, rng.choice(rows))}
    _, fdata = full_index(bt, rows, c1["unit"])
    fidx = fdata.index
    calls = list(range(1, len(fidx)))
    case = {"mode": "or", "members": [{"algo": m["algo"], "params": m["params"]} for m in members], "rows": c1["rows"], "unit": c1["unit"]}

    def answers(algo):
        s = bt.Strategy("s", [algo])
        s.setup(fdata)
        out = []
        for c in calls:
            s.update(fidx[c])
            out.append(call(algo, s))
        return out
    try:
        alone = [answers(make_count_algo(bt, m)) for m in members]
        real = answers(bt.algos.Or([make_count_algo(bt, m) for m in members]))
    except Exception as e:  # noqa
        ctx.count("or:raised:" + type(e).__name__)
        return
    ctx.evaluations += 1
    ctx.count("or:cases")
    ctx.classes.add(("or", tuple(m["algo"] for m in members)))
    if any(not isinstance(x, bool) for a in alone + [real] for x in a):
        ctx.count("or:a-member-raised(not judged)")
        return
    for k in range(len(calls)):
        want = any(a[k] for a in alone)
        if real[k] != want:
            ctx.violation("C12/Or:member-not-called-on-every-date", "Or(%s) on call %d (row %s) returned %r; the members on their own over the same calls answer %r"
                          % ([m["algo"] + json.dumps(m["params"]) for m in members], k, fmt_row(frows_of(fidx)[calls[k]]), real[k], [a[k] for a in alone]), case)
            return


def run_count_backtest_case(ctx, bt, case, batch):
    rows = [tuple(r) for r in case["rows"]]
    algo = make_count_algo(bt, case)
    try:
        fired, fidx = exec_backtest(bt, rows, case["unit"], algo)
    except Exception as e:  # noqa
        ctx.violation("C12/%s:backtest:raised:%s" % (case["algo"], type(e).__name__), "Backtest raised %r" % (e,), case)
        return
    nss = [pd.Timestamp(t).value for t in fidx]
    real = [v in fired for v in nss[1:]]
    if len(set(fired)) != len(fired) or any(f not in nss[1:] for f in fired):
        ctx.violation("C12/%s:backtest:fired-on-foreign-or-repeated-date" % case["algo"], "fired %s" % fired, case)
        return
    frows = frows_of(fidx)
    gen_nows = [ns_of(r) for r in frows[1:]]
    batch.add("sched:%s[Backtest.run]" % case["algo"], count_line(case, nss[1:]), real, case)
    ctx.evaluations += 1
    ctx.count("count:backtest-runs:" + case["algo"])
    ctx.classes.add((case["family"], case["algo"], case["pclass"], "backtest"))
    exp = spec_count(case, gen_nows)
    if exp is None:
        return
    for k, (g, e) in enumerate(zip(real, exp)):
        ctx.count("monitor:count:%s" % ("fire" if e else "silent"))
        if g != e:
            ctx.violation("C12/%s:backtest:%s" % (case["algo"], "spurious" if g else "missed"),
                          "%s(%s) in Backtest.run over %s: date %d (%s) %s, the property text says %s"
                          % (case["algo"], json.dumps(case["params"]), [fmt_row(r) for r in frows[1:]], k, fmt_row(frows[k + 1]),
                             "ran the rest of the stack" if g else "stopped the stack", e), case)


def gen_count_case(ctx, rng, maxn, backtest=False):
    family = rng.choice(["daily", "bdays", "weekly", "intraday", "sparse", "newyear", "same-dom", "tiny"])
    rows, unit = gen_index(rng, family, maxn)
    n = len(rows) + 1
    algo = rng.choice(["RunOnce", "RunOnDate", "RunAfterDate", "RunAfterDays", "RunEveryNPeriods", "RunEveryNPeriods"])
    params = {}
    pclass = ""
    if algo == "RunOnDate":
        ds = []
        for _ in range(rng.choice([0, 1, 1, 2, 3, 5])):
            r = rng.random()
            if r < 0.6:
                ds.append(date_param(rng, rng.choice(rows)))
            elif r < 0.8:
                b = rng.choice(rows)
                ds.append(date_param(rng, (b[0], 0)))               # the day of a (possibly intraday) label, at midnight
            else:
                ds.append(date_param(rng, (rows[0][0] + rng.randint(-3, len(rows) + 3), rng.choice([0, rows[0][1]]))))
        params = {"dates": ds}
        hits = len(set(ns_of((d[0], d[1])) for d in ds) & set(ns_of(r) for r in rows))
        pclass = "dates=%d,hits=%d" % (min(len(ds), 3), min(hits, 2))
    elif algo == "RunAfterDate":
        r = rng.random()
        if r < 0.6:
            b = rng.choice(rows)
        elif r < 0.8:
            b = (rng.choice(rows)[0], 0)
        else:
            b = (rows[0][0] + rng.randint(-5, len(rows) + 5), rows[0][1])
        params = {"date": date_param(rng, b)}
        v = ns_of(b)
        pclass = "before-all" if v < ns_of(rows[0]) else "after-all" if v >= ns_of(rows[-1]) else "inside"
    elif algo == "RunAfterDays":
        d = rng.choice([0, 1, 2, 3, 5, len(rows) - 1, len(rows), len(rows) + 2, rng.randint(0, 40), -1])
        params = {"days": d}
        pclass = "days<0" if d < 0 else "days=0" if d == 0 else "days<len" if d < len(rows) else "days>=len"
    elif algo == "RunEveryNPeriods":
        nn = rng.choice([1, 1, 2, 2, 3, 4, 5, 7, 12, rng.randint(1, 30), 0, -1]) if not backtest else rng.choice([1, 2, 3, 4, 5, 7, 12])
        r = rng.random()
        if r < 0.3:
            params = {"n": nn, "offset": 0, "default_offset": True}
        else:
            off = rng.choice([0, 1, 2, max(nn - 1, 0), nn, nn + 1, rng.randint(0, 12), -1, -2]) if not backtest else rng.choice([0, 1, max(nn - 1, 0), nn, nn + 2])
            params = {"n": nn, "offset": off}
        off = params["offset"]
        pclass = ("n<1" if nn < 1 else "n=1" if nn == 1 else "n>1") + "," + ("off<0" if off < 0 else "off=0" if off == 0 else "off<n" if off < nn else "off>=n")
    case = {"mode": "count-backtest" if backtest else "count", "family": family, "rows": [list(r) for r in rows], "unit": unit,
            "algo": algo, "params": params, "pclass": pclass}
    if backtest:
        case["regime"] = "one-call-per-date"
        return case
    r = rng.random()
    if r < 0.4:
        case["regime"] = "one-call-per-date"
        case["calls"] = list(range(1, n))
    elif r < 0.8:
        case["regime"] = "repeated-calls-per-date"
        calls = []
        for i in range(rng.choice([0, 1, 1]), n):
            calls += [i] * rng.choice([1, 1, 2, 2, 3])
        case["calls"] = calls
    else:
        case["regime"] = "out-of-order"
        case["calls"] = [rng.randrange(0, n) for _ in range(rng.randint(1, 2 * n))]
    if rng.random() < 0.12:
        case["pre0"] = True
    return case


# ------------------------------------------------------------------ pandas calendar versus Lean calendar
def run_calendar(ctx, batch_unused):
    rng = ctx.rng
    t0 = pd.Timestamp("1677-09-22")
    t1 = pd.Timestamp("2262-04-11")
    if ctx.tier == "thorough":
        days = pd.date_range(t0, t1, freq="D")
        what = "every day pandas' ns range can represent"
    else:
        lo = t0.value // NS_DAY
        hi = t1.value // NS_DAY
        sel = set(rng.randrange(lo, hi + 1) for _ in range(3000))
        for y in range(1678, 2262):
            j = (datetime.date(y, 1, 1).toordinal() - EPOCH_ORD)
            for k in range(-5, 5):
                sel.add(j + k)
            m = (datetime.date(y, 3, 1).toordinal() - EPOCH_ORD)
            sel.add(m - 1)
            sel.add(m)
        days = pd.DatetimeIndex(np.array(sorted(sel), dtype="int64").view("datetime64[D]").astype("datetime64[ns]"))
        what = "3000 random days + 10 days around every New Year + end of February of every year 1678-2261"
    lines = []
    chunk = 2000
    for i in range(0, len(days), chunk):
        c = days[i:i + chunk]
        tod = rng.choice([0, 1, NS_DAY - 1, 12 * 3600 * 10 ** 9])
        if tod and c[0].value + tod > t0.value and c[-1].value + tod < pd.Timestamp.max.value:
            c = c + pd.Timedelta(tod, "ns")
        lines.append("sched cal %d %s" % (len(c), " ".join(wire(t) for t in c)))
    out = leanrun.run_lines(lines)
    n = 0
    bad = 0
    for o, ln in zip(out, lines):
        t = o.split()
        if t[0] != "ok":
            bad += 1
            ctx.disagreement("corr:sched:calendar", {"answer": o[:200]}, {"mode": "calendar"})
            continue
        n += int(t[1])
        if t[2] != "0":
            bad += int(t[2])
            pos = int(t[3])
            ctx.disagreement("corr:sched:calendar", {"mismatches": int(t[2]), "first": " ".join(ln.split()[3 + 9 * pos: 12 + 9 * pos])}, {"mode": "calendar"})
    ctx.protocols.append(("sched:calendar(pandas vs Lean): " + what, n, bad))
    ctx.count("calendar:days-compared", n)
    ctx.evaluations += n


# ------------------------------------------------------------------ corpus
def corpus_cases():
    out = []
    for f in sorted(glob.glob(os.path.join(HERE, "corpus", "C12_*.json"))):
        out.append(json.load(open(f))["case"])
    return out


def run_case(ctx, bt, case, batch):
    m = case["mode"]
    if m == "period":
        run_period_case(ctx, bt, case, batch)
    elif m == "period-backtest":
        run_period_backtest_case(ctx, bt, case, batch)
    elif m == "illformed":
        exec_illformed(ctx, bt, case, batch)
    elif m == "count":
        run_count_case(ctx, bt, case, batch)
    elif m == "count-backtest":
        run_count_backtest_case(ctx, bt, case, batch)
    elif m == "calendar":
        run_calendar(ctx, batch)
    elif m == "or":
        import random as _r
        for k in range(200):
            run_or_case(ctx, bt, _r.Random(k), 24)       # regenerated: an Or case is cheap and deterministic in its generator state
    else:
        raise ValueError(m)


# ------------------------------------------------------------------ entry points
def _run(ctx, bt, n_period, n_bt, n_ill, n_count, n_count_bt, calendar=True, n_tz=0):
    rng = ctx.rng
    batch = Batch(ctx)
    for case in corpus_cases():
        ctx.count("corpus-cases")
        run_case(ctx, bt, case, batch)
    maxn = ctx.scale(24, 40)
    for i in range(n_period):
        full = (ctx.tier == "thorough" and i % 10 == 0) or (ctx.tier != "thorough" and i % 40 == 0)
        case = gen_period_case(ctx, rng, maxn, 5)
        if full:
            case["combos"] = all_combos()     # exhaustive: every scheduler x every flag combination on this index
            ctx.count("period:all-40-combos-on-one-index")
        ctx.sample({"period": {"family": case["family"], "unit": case["unit"], "rows": [fmt_row(tuple(r)) for r in case["rows"]][:12],
                               "combos": case["combos"][:3]}}, cap=2)
        run_period_case(ctx, bt, case, batch)
        if i % 5 == 0 and len(case["rows"]) >= 3:
            # the same scheduler classes right afterwards on a sibling index - same length, same first and last date, one interior
            # date moved (two markets over one span with a holiday on different days): answers are a function of the index at hand
            tw = twin_case(rng, case)
            if tw is not None:
                ctx.count("period:twin-index-after-its-sibling")
                run_period_case(ctx, bt, tw, batch)
        if len(batch.lines) > 3000:
            batch.flush()
    for i in range(n_bt):
        case = gen_period_case(ctx, rng, maxn, 1)
        case["mode"] = "period-backtest"
        case["outside"] = []
        run_period_backtest_case(ctx, bt, case, batch)
    for i in range(n_ill):
        run_illformed_case(ctx, bt, rng, batch)
    # tz-aware price tables (exchange-local stamps): the periods are those of the local wall-clock dates
    for i in range(n_tz):
        case = gen_tz_case(ctx, rng, maxn, 5)
        if case is None:
            continue
        if i % 20 == 0:
            case["combos"] = all_combos()
        ctx.sample({"period-tz": {"family": case["family"], "unit": case["unit"], "tz": case["tz"],
                                  "rows": [fmt_row(tuple(r)) for r in case["rows"]][:12], "combos": case["combos"][:3]}}, cap=2)
        run_period_case(ctx, bt, case, batch)
    for i in range(n_tz // 3):
        case = gen_tz_case(ctx, rng, maxn, 1)
        if case is None:
            continue
        case["mode"] = "period-backtest"
        case["outside"] = []
        run_period_backtest_case(ctx, bt, case, batch)
    batch.flush()
    for i in range(n_count):
        case = gen_count_case(ctx, rng, maxn)
        ctx.sample({"count": {k: case[k] for k in ("algo", "params", "regime", "calls")}}, cap=3)
        run_count_case(ctx, bt, case, batch)
    for i in range(max(1, n_count // 10)):
        run_or_case(ctx, bt, rng, maxn)
    for i in range(n_count_bt):
        run_count_backtest_case(ctx, bt, gen_count_case(ctx, rng, maxn, backtest=True), batch)
    batch.flush()
    batch.report()
    if calendar:
        run_calendar(ctx, batch)


def run(ctx, bt):
    _run(ctx, bt, n_period=ctx.scale(1400, 27000), n_bt=ctx.scale(200, 4500), n_ill=ctx.scale(80, 1500),
         n_count=ctx.scale(1000, 21000), n_count_bt=ctx.scale(160, 3600), n_tz=ctx.scale(150, 3000))
    # the schedulers at work: complete (nested) backtests whose stacks are headed by the calendar schedulers, RunOnce,
    # RunEveryNPeriods or RunAfterDays - the model computes the gate from the index (a backtest's own tree and every shadow copy
    # are first called on the first data row; nobody's algos run on the synthetic row) and executes the whole run
    from .. import whole_run as W
    W.whole_run_protocol(ctx, bt, ctx.scale(30, 600), "whole-run-x[C12]:schedulers-inside-backtests", extended=True)


def search(ctx, bt):
    ctx.notes.append("search: x5 budget on the same generators")
    _run(ctx, bt, n_period=ctx.scale(4500, 20000), n_bt=ctx.scale(600, 3000), n_ill=ctx.scale(100, 600),
         n_count=ctx.scale(3500, 20000), n_count_bt=ctx.scale(500, 3000), calendar=False, n_tz=ctx.scale(500, 3000))


def replay(bt, data, ctx):
    case = data["case"]
    batch = Batch(ctx)
    if case.get("after"):
        run_case(ctx, bt, case["after"], Batch(ctx))      # the sibling index the case was run after
    run_case(ctx, bt, case, batch)
    batch.flush()
