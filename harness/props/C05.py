"""C05 security allocate respects the budget: a dense sweep of (price, multiplier, position, amount, spread, commission,
integer flag) on a one-security tree; monitor of the budget / maximality / close-out / zero / refusal clauses on the real
objects; every allocate step re-executed by the Lean model (`allocQuantity`, `sizeLoop`) from the real pre-state."""
import json
import math
import os

import numpy as np
import pandas as pd

from .. import engine as E
from .. import leanrun

RULE = ("one-security trees; prices on integer / dyadic / arbitrary grids x multipliers {1,10,0.5,100} x positions long/short/flat x "
        "amounts of both signs incl. zero, sub-unit, near-unit and near/at close-out x spreads x commission family (zero, fixed, per-share, "
        "proportional, min-fee) x integer flag. distinct = (integer, position sign, amount class, commission kind, spread?, outcome branch)")
ASSUMPTIONS = ["budget compared with tolerance atol 1e-8 + 1e-9*|amount| (the search itself stops at np.isclose(atol=1e-8))",
               "sizing-search raises are judged by C10 (well-formed runs complete), not here"]
HERE = os.path.dirname(os.path.dirname(os.path.dirname(os.path.abspath(__file__))))


def gen_case(rng):
    grid = rng.choice(["int", "dyadic", "float", "float"])
    if grid == "int":
        price = float(rng.randint(1, 200))
    elif grid == "dyadic":
        price = rng.randint(1, 3200) / 16.0
    else:
        price = rng.uniform(0.5, 500)
    mult = rng.choice([1.0, 1.0, 1.0, 10.0, 0.5, 100.0])
    integer = rng.random() < 0.6
    pk = rng.choice(["flat", "long", "short"])
    if pk == "flat":
        pos = 0.0
    else:
        pos = float(rng.randint(1, 500)) if (integer or rng.random() < 0.5) else rng.uniform(0.1, 500)
        if integer and rng.random() < 0.15:
            # a non-whole holding under the whole-unit flag: positions taken by quantity (transact) are never rounded
            pos = rng.choice([rng.randint(0, 40) + 0.5, rng.randint(0, 9) + 0.25, rng.uniform(0.1, 60)])
        if pk == "short":
            pos = -pos
    unit = price * mult
    comm = rng.choice([[0, 0, 0], [0, 0, 0], [1, 1.0, 0], [1, 0.25, 0], [2, 0, 0.01], [2, 0, 0.25], [3, 0, 0.001], [3, 0, 0.0078125],
                       [4, 1.0, 0.01], [5, 1.0, 0.001]])
    # sane: smaller than the unit price
    if comm[0] in (2, 4) and comm[2] >= unit:
        comm = [0, 0, 0]
    bo = None
    if rng.random() < 0.35:
        bo = rng.choice([0.125, 0.25, 0.5]) if grid != "float" else rng.uniform(0, 0.3)
        bo = min(bo, price * 0.5)
    ak = rng.choice(["random", "random", "random", "zero", "subunit", "nearunit", "closeout", "nearcloseout", "big", "bad-price"])
    value = pos * price * mult
    if ak == "zero":
        amount = rng.choice([0.0, -0.0, 1e-17])
    elif ak == "subunit":
        amount = rng.choice([-1, 1]) * unit * rng.uniform(0.05, 0.95)
    elif ak == "nearunit":
        k = rng.randint(1, 5)
        amount = rng.choice([-1, 1]) * (unit * k + rng.choice([0.0, 1e-9, -1e-9, 0.01, -0.01]))
    elif ak == "closeout":
        amount = -value if pos != 0 else unit * 3
    elif ak == "nearcloseout":
        amount = -value * (1 + rng.choice([1e-15, -1e-15, 1e-9, -1e-9, 1e-3, -1e-3])) if pos != 0 else -unit * 2
    elif ak == "big":
        amount = rng.choice([-1, 1]) * unit * rng.randint(200, 20000) * rng.uniform(0.9, 1.1)
    else:
        amount = rng.choice([-1, 1]) * unit * rng.uniform(1, 300)
    if grid == "int" and ak in ("random", "big") and rng.random() < 0.7:
        amount = float(int(amount))
    bad = None
    if ak == "bad-price":
        bad = rng.choice(["nan", "zero"])
    # the security may sit in a sleeve (sub-strategy) that has its own commission schedule, different from the root's
    nested = rng.random() < 0.2
    hist = None
    if rng.random() < 0.4:
        # some history before the allocation: more dates, a spread that moves from date to date, and - for a flat security - either
        # idle throughout (declared up front, never traded) or opened and closed earlier and idle since
        n = rng.choice([3, 4, 5])
        hist = {"n": n, "roundtrip": pk == "flat" and rng.random() < 0.5,
                # the very same allocation was already made (and unwound) on the eve, at the same price, under another spread:
                # every quantity the sizing looks at today has been priced before
                "rehearse": rng.random() < 0.5}
        if bo is not None:
            hist["spreads"] = [min(price * 0.5, bo * rng.choice([0.25, 0.5, 2.0, 3.0, 1.0])) for _ in range(n - 1)] + [bo]
    return {"hist": hist, "price": price, "mult": mult, "integer": integer, "pos": pos, "comm": comm, "bidoffer": bo, "amount": amount,
            "amount_class": ak, "bad": bad, "grid": grid, "nested": nested}


def build(bt, case):
    """root (StrategyBase) with one security at the case's state on the second date"""
    c = bt.core
    hist = case.get("hist") or {"n": 2, "roundtrip": False}
    n = hist["n"]
    dates = pd.date_range("2020-01-01", periods=n)
    p1 = case["price"]
    if case["bad"] == "nan":
        p1 = np.nan
    elif case["bad"] == "zero":
        p1 = 0.0
    data = pd.DataFrame({"x": [case["price"]] * (n - 1) + [p1]}, index=dates)
    sec = c.Security("x", multiplier=case["mult"])
    if case.get("nested"):
        sleeve = c.StrategyBase("sl", children=[sec])
        root = c.StrategyBase("p", children=[sleeve])
        root.use_integer_positions(case["integer"])
        root.set_commissions(E.make_comm(1, 7.0, 0))          # the root charges a flat 7 ...
        root.children["sl"].set_commissions(E.make_comm(*case["comm"]))   # ... the sleeve has its own schedule
    else:
        root = c.StrategyBase("p", children=[sec])
        root.use_integer_positions(case["integer"])
        root.set_commissions(E.make_comm(*case["comm"]))
    kw = {}
    if case["bidoffer"] is not None:
        kw["bidoffer"] = pd.DataFrame({"x": hist.get("spreads") or [case["bidoffer"]] * n}, index=dates)
    root.setup(data, **kw)
    root.adjust(1e9)
    root.update(dates[0])
    holder = root.children["sl"] if case.get("nested") else root
    if case.get("nested"):
        root.allocate(5e8, "sl")
    sec = holder.children["x"]
    fn = holder.commission_fn
    if hist["roundtrip"]:
        holder.commission_fn = E.make_comm(0, 0, 0)
        sec.transact(7.0)
        root.update(dates[0])
        sec.transact(-7.0)
        holder.commission_fn = fn
        root.update(dates[0])
    for d in dates[1:n - 1]:
        root.update(d)
    if case["pos"] != 0:
        # build the position at zero cost: swap the commission in afterwards
        holder.commission_fn = E.make_comm(0, 0, 0)
        sec.transact(case["pos"])
        holder.commission_fn = fn
    root.update(dates[n - 2])
    if hist.get("rehearse") and case["bad"] is None and abs(case["amount"]) > 1e-12:
        p0 = sec._position
        try:
            sec.allocate(case["amount"])
            root.update(dates[n - 2])
            dq = sec._position - p0
            if dq != 0:
                holder.commission_fn = E.make_comm(0, 0, 0)
                sec.transact(-dq)
                holder.commission_fn = fn
                root.update(dates[n - 2])
        except Exception:
            holder.commission_fn = fn
    if case["bad"] is None or case["pos"] == 0:
        root.update(dates[n - 1])
    else:
        # a held position cannot be carried into a missing price (update raises); test refusal flat
        pass
    return root, sec, dates


def cost_of(case, q, price, bo=None):
    m = case["mult"]
    fn = E.make_comm(*case["comm"])
    bo = (case["bidoffer"] or 0.0) if bo is None else bo
    return q * price * m + abs(q) * 0.5 * bo * m + fn(q, price * m)


def run_case(ctx, bt, case, collect):
    try:
        root, sec, dates = build(bt, case)
    except Exception as e:  # noqa
        ctx.count("build-raised:" + E.classify_exc(e))
        return
    amount = case["amount"]
    # the spread that applies is the one of the date the tree stands at (a held position is not carried into a missing price)
    sp_ = (case.get("hist") or {}).get("spreads")
    bo_now = None if (sp_ is None or case["bidoffer"] is None) else float(sp_[list(dates).index(root.now)])
    pre = E.snap_world(bt, root)
    pos0 = sec._position
    price = sec._price
    val0 = sec._value
    op = {"op": "allocate", "path": [0, 0] if case.get("nested") else [0], "amount": amount, "update": True}
    err = None
    try:
        sec.allocate(amount)
    except Exception as e:  # noqa
        err = E.classify_exc(e)
    rd = {"case": case}
    if err is not None:
        collect.append((case, {"pre": pre, "op": op, "err": err}))
        ctx.count("outcome:raise:" + err)
        ctx.classes.add((case["integer"], np.sign(case["pos"]), case["amount_class"], case["comm"][0], case["bidoffer"] is not None, err))
        if err.startswith("Sizing"):
            ctx.count("sizing-raise(for C10):" + err + ":comm%d" % case["comm"][0])
        return
    post = E.snap_world(bt, root)
    collect.append((case, {"pre": pre, "op": op, "post": post}))
    q = sec._position - pos0
    branch = "none" if q == 0 else ("closeout" if sec._position == 0 and pos0 != 0 else "trade")
    ctx.count("outcome:" + branch)
    ctx.classes.add((case["integer"], np.sign(case["pos"]), case["amount_class"], case["comm"][0], case["bidoffer"] is not None, branch))
    # ---- monitor
    bad_price = (price != price) or abs(price) < 1e-16
    if abs(amount) < 1e-16:
        if q != 0:
            ctx.violation("C05/zero-amount-trades", "allocate(%r) traded %r" % (amount, q), rd)
        return
    if bad_price:
        ctx.violation("C05/bad-price-not-refused", "allocate(%r) at price %r did not raise (traded %r)" % (amount, price, q), rd)
        return
    tol = 1e-8 + 1e-9 * abs(amount)
    closeout = abs(amount + val0) < 1e-16 and pos0 != 0
    if closeout:
        if sec._position != 0:
            ctx.violation("C05/closeout-leaves-position", "allocate(-value=%r) left position %r (was %r)" % (amount, sec._position, pos0), rd)
        return
    # nothing traded, nothing charged (a commission function may well quote a minimum fee for q = 0: it is not called)
    cost = 0.0 if q == 0 else cost_of(case, q, price, bo_now)
    if case["integer"] and pos0 != int(pos0) and abs(q - round(q)) <= 1e-9 * max(1.0, abs(pos0), abs(q)):
        q = float(round(q))       # the traded quantity is the difference of two non-whole positions: remove the subtraction's rounding noise
    if case["integer"] and q != int(q):
        ctx.violation("C05/fractional-quantity", "integer positions but traded %r" % q, rd)
        return
    if cost > amount + tol:
        if q == -pos0 and pos0 != 0:
            key = "C05/budget:skip-closeout-equal-q"
        elif q == 0 and amount < 0:
            key = "C05/budget:short-subunit-noop"
        else:
            key = "C05/budget"
        ctx.violation(key, "allocate(%r) on position %r at price %r x %r (spread %r, commission %r, integer=%r) traded %r costing %r > amount"
                      % (amount, pos0, price, case["mult"], case["bidoffer"], case["comm"], case["integer"], q, cost), rd)
        return
    if case["integer"]:
        if q + 1 != -pos0 or True:
            c1 = cost_of(case, q + 1, price, bo_now)
            if c1 <= amount - tol and not (q + 1 == -pos0):
                ctx.violation("C05/not-maximal", "allocate(%r): traded %r (cost %r) but %r would cost %r <= amount" % (amount, q, cost, q + 1, c1), rd)
    else:
        if abs(cost - amount) > tol and q != 0:
            ctx.violation("C05/fractional-inexact", "allocate(%r) fractional traded %r costing %r" % (amount, q, cost), rd)


def compare_model(ctx, bt, collected, name):
    cfg = E.live_cfg(bt)
    lines = [E.step_line(cfg, st["pre"], st["op"]) for _, st in collected]
    outs = leanrun.run_lines(lines)
    nd = 0
    for (case, st), o in zip(collected, outs):
        tag, val = E.parse_answer(o)
        detail = None
        if "err" in st:
            if not (tag == "err" and val == st["err"]):
                detail = {"kind": "error-kind", "real": st["err"], "model": val if tag == "err" else "ok"}
        elif tag != "ok":
            detail = {"kind": "model-raises", "model": val}
        else:
            c = E.cmp_world(st["post"], val)
            d = [x for x in c.diffs if x["field"] in ("position", "capital", "outlayAcc", "lastFee", "bidofferPaid", "needupdate", "value", "stale")]
            if d:
                detail = {"kind": "state", "diffs": d[:4]}
        if detail:
            nd += 1
            ctx.disagreement("corr:alloc:%s" % detail["kind"], detail, {"case": case})
    ctx.protocols.append((name, len(collected), nd))


def corpus():
    p = os.path.join(HERE, "corpus", "C05_witnesses.json")
    return json.load(open(p)) if os.path.exists(p) else []


def run(ctx, bt, n=None, name="alloc"):
    collected = []
    for case in corpus():
        ctx.evaluations += 1
        run_case(ctx, bt, case, collected)
    for _ in range(n or ctx.scale(2500, 60000)):
        case = gen_case(ctx.rng)
        ctx.evaluations += 1
        if len(ctx.samples) < 3:
            ctx.sample(case)
        run_case(ctx, bt, case, collected)
    compare_model(ctx, bt, collected, name)


def search(ctx, bt):
    run(ctx, bt, ctx.scale(12000, 100000), "alloc:search")


def replay(bt, data, ctx):
    collected = []
    run_case(ctx, bt, data["case"]["case"], collected)
    compare_model(ctx, bt, collected, "alloc")
