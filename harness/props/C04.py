"""C04 no look-ahead: every generated backtest is run twice from fresh objects - once on the data as generated, once with every
supplied value dated after a random cut perturbed (prices, bid/offer, target-weight frames, signals, statistics, coupons) -
and all node histories up to the cut are compared bit for bit."""
import copy

import pandas as pd

from .. import engine as E
from .. import gen_runs as R
from .. import runsnap as S
from . import C17 as FI

RULE = ("generated programs over all stock scheduling / selection / statistic / weighting / rebalancing algos of the generator (incl. lookback "
        "and lag windows, WeighTarget / SelectWhere / SetStat frames, nested trees, fixed-income programs); cut date uniform over the index; "
        "perturbations: NaN, x10, sign flip, fresh random, dropped rows; histories up to the cut compared bit for bit (runs that raise after "
        "the cut are compared on what they recorded). distinct = (program shape, perturbation mode, cut position class)")
ASSUMPTIONS = ["external kernels (ffn, scipy) are deterministic functions of the frames they are handed"]


def run_pair(ctx, bt, spec, builder):
    cut = spec["perturb_plan"]["cut"]
    base = copy.deepcopy(spec)
    base.pop("perturb", None)
    pert = copy.deepcopy(spec)
    pert["perturb"] = spec["perturb_plan"]
    hs = []
    for sp in (base, pert):
        root = None
        try:
            b = builder(bt, sp)
            root = b.strategy
            b.run()
        except Exception as e:  # noqa
            ctx.count("run-raised:" + E.classify_exc(e))
            if root is None or not hasattr(root, "data"):
                return
        hs.append(S.node_histories(bt, root, cut))
    ctx.count("pairs-compared")
    d = S.first_diff(hs[0], hs[1])
    if d is not None:
        ctx.violation("C04/history-depends-on-later-data:" + spec["perturb_plan"]["mode"],
                      "perturbing data after %s (%s) changed history up to the cut: %s" % (cut, spec["perturb_plan"]["mode"], d),
                      {"spec": spec, "kind": spec.get("kind", "program")})


def run_risk_pair(ctx, bt, rs, cut_i):
    from .. import risk_lib as RL
    cut = rs["dates"][cut_i]
    hs = []
    for pert in (None, cut_i):
        root = None
        try:
            b = RL.build_risk_backtest(bt, rs, perturb_after=pert)
            root = b.strategy
            b.run()
        except Exception as e:  # noqa
            ctx.count("risk-run-raised:" + E.classify_exc(e))
            if root is None or not hasattr(root, "data"):
                return
        h = S.node_histories(bt, root, cut)
        try:
            rh = RL.risk_backtest_history(b, cut)
            flat = {"price": rh.get("price", [])}
            for sec, v in rh.get("positions", {}).items():
                flat["pos:" + sec] = v
            for node, ms in rh.get("risks", {}).items():
                for m, v in ms.items():
                    flat["risk:%s:%s" % (node, m)] = v
            h["__risk__"] = {k: [(-1 if x is None else E.f2b(float(x))) for x in v] for k, v in flat.items()}
        except Exception:
            pass
        hs.append(h)
    ctx.count("risk-pairs-compared")
    d = S.first_diff(hs[0], hs[1])
    if d is not None:
        ctx.violation("C04/history-depends-on-later-data:unit-risk", "perturbing the unit-risk tables after %s changed history up to the cut: %s" % (cut, d),
                      {"risk_spec": rs, "cut_i": cut_i, "kind": "risk"})


def build_program(bt, spec):
    b, data, add = R.build_backtest(bt, spec)
    return b


def build_fi(bt, spec):
    sp = copy.deepcopy(spec)
    pt = sp.get("perturb")
    if pt:
        cut = pd.Timestamp(pt["cut"])
        k = sum(1 for d in sp["dates"] if pd.Timestamp(d) <= cut)
        import random as _r
        r = _r.Random(pt.get("seed", 0))
        for name in ("prices", "coupons", "cost_long", "cost_short"):
            if sp.get(name):
                for t, col in sp[name].items():
                    for i in range(k, len(col)):
                        if pt["mode"] == "nan":
                            col[i] = None if name == "prices" else 0.0
                        elif pt["mode"] == "x10":
                            col[i] = col[i] * 10.0
                        else:
                            # (a coupon / cost of exactly zero may well become non-zero later on)
                            col[i] = abs(col[i]) * r.uniform(0.2, 3.0) + (1.0 if name == "prices" else r.choice([0.0, 0.25, 0.5]))
        for i in range(k, len(sp["notional"])):
            sp["notional"][i] = sp["notional"][i] * 7.0
    return FI.build_program(bt, sp)


def gen_blotter_spec(rng):
    """a program driven by a supplied (Date, Security) frame - a blotter replayed by ReplayTransactions or requests answered by
    SimulateRFQTransactions - whose rows are dated between the data's dates too (executed on the next date) and come in any order:
    chronological, security by security, reversed, shuffled"""
    spec = R.gen_run_spec(rng, nested=False, T=rng.randint(8, 16))
    tk = spec["tickers"]
    for t in tk:
        spec["prices"][t] = [p if p is not None else 10.0 for p in spec["prices"][t]]
    ds = [pd.Timestamp(d) for d in spec["dates"]]
    rows = []
    for i, d in enumerate(ds):
        for t in tk:
            if rng.random() < 0.35:
                when = d
                if i > 0 and rng.random() < 0.25:       # dated between two data dates: belongs to the step that ends at d
                    when = ds[i - 1] + (d - ds[i - 1]) / 2
                px = spec["prices"][t][i]
                rows.append([str(when), t, float(rng.choice([1, 2, 5, 10, -1, -3, 20])), float(px * rng.choice([1.0, 1.0, 0.99, 1.02]))])
    order = rng.choice(["chronological", "by-security", "reversed", "shuffled"])
    if order == "by-security":
        rows.sort(key=lambda r: (r[1], r[0]))
    elif order == "reversed":
        rows.reverse()
    elif order == "shuffled":
        rng.shuffle(rows)
    spec["blotter"] = {"rows": rows, "order": order, "algo": rng.choice(["replay", "replay", "rfq"])}
    spec["kind"] = "blotter"
    return spec


def build_blotter(bt, spec):
    sp = copy.deepcopy(spec)
    rows = sp["blotter"]["rows"]
    pt = sp.get("perturb")
    if pt:
        import random as _r
        r = _r.Random(pt.get("seed", 0))
        cut = pd.Timestamp(pt["cut"])
        out = []
        for when, t, q, px in rows:
            if pd.Timestamp(when) > cut:
                if pt["mode"] == "drop":
                    continue
                q, px = q * r.choice([-2.0, 3.0, 0.5, 7.0]), px * r.uniform(0.5, 2.0)
            out.append([when, t, q, px])
        rows = out
    idx = pd.MultiIndex.from_tuples([(pd.Timestamp(w), t) for w, t, _, _ in rows], names=["Date", "Security"]) if rows else \
        pd.MultiIndex.from_arrays([pd.DatetimeIndex([]), []], names=["Date", "Security"])
    frame = pd.DataFrame({"quantity": [r_[2] for r_ in rows], "price": [r_[3] for r_ in rows]}, index=idx, dtype=float)
    data = R.frame(sp["prices"], sp["dates"])
    if sp["blotter"]["algo"] == "replay":
        algo = bt.algos.ReplayTransactions("blotter")
    else:
        def model(rfqs, target):       # every request is filled, a touch worse than asked
            out = rfqs.copy()
            out["price"] = out["price"] * 1.001
            return out
        algo = bt.algos.SimulateRFQTransactions("blotter", model)
    s = bt.Strategy("top", algos=[algo], children=[bt.Security(t) for t in sp["tickers"]])
    return bt.Backtest(s, data, initial_capital=sp["capital"], integer_positions=False, additional_data={"blotter": frame, "bidoffer": {}}, progress_bar=False)


def blotter_protocol(ctx, bt, specs, corr="blotter:rows-per-call"):
    """the model's row selection (`Bt.Blotter.selectIdx`, the subject of `select_causal` / `window_disjoint` / `window_covers`) vs
    the trades the real algos issue: every `transact` of a run is tapped with the date of the call, and must be the picked rows in
    frame order (RFQ: at the model's answered price)"""
    from ..leanrun import run_lines
    lines, meta = [], []
    core = bt.core
    for spec in specs:
        for sp in (spec, dict(spec, perturb=spec["perturb_plan"])):
            log = []
            orig = core.SecurityBase.transact

            def tap(self, q, update=True, update_self=True, price=None, _orig=orig):
                try:
                    log.append((int(self.root.data.index.get_loc(self.root.now)), self.name, float(q), None if price is None else float(price)))
                except Exception:
                    pass
                return _orig(self, q, update, update_self, price)
            core.SecurityBase.transact = tap
            try:
                b = build_blotter(bt, sp)
                b.run()
            except Exception as e:  # noqa
                ctx.count("blotter-run-raised:" + E.classify_exc(e))
                continue
            finally:
                core.SecurityBase.transact = orig
            if b.strategy.bankrupt:
                ctx.count("blotter-run-bankrupt:not-compared")     # liquidation trades, and no calls after the bankruptcy
                continue
            frame = b.additional_data["blotter"]
            stamps = [int(pd.Timestamp(x).value) for x in frame.index.get_level_values("Date")]
            tl = [int(pd.Timestamp(x).value) for x in b.data.index]
            lines.append("blotter %s %s" % (E.tL(tl, str), E.tL(stamps, str)))
            meta.append((sp, frame, log, len(tl)))
    outs = run_lines(lines) if lines else []
    nd = 0
    for (sp, frame, log, n), o in zip(meta, outs):
        toks = o.split()
        if not toks or toks[0] != "ok":
            nd += 1
            ctx.disagreement("corr:%s:driver-rejected" % corr, {"answer": o[:200]}, {"spec": sp, "kind": "blotter"})
            continue
        vals = [int(x) for x in toks[1:]]
        k = 0
        want = []
        mult = 1.001 if sp["blotter"]["algo"] == "rfq" else 1.0
        for i in range(n):
            m = vals[k]
            for j in vals[k + 1:k + 1 + m]:
                r = frame.iloc[j]
                want.append((i, frame.index[j][1], float(r["quantity"]), float(r["price"]) * mult if mult != 1.0 else float(r["price"])))
            k += 1 + m
        ctx.count("blotter:rows-picked", len(want))
        ctx.count("blotter:rows-in-frames", len(frame))
        if want != log:
            nd += 1
            first = next((x for x in zip(want + [None] * len(log), log + [None] * len(want)) if x[0] != x[1]), None)
            ctx.disagreement("corr:%s:trades-differ" % corr, {"first-difference (model, real)": repr(first), "model-rows": len(want), "real-trades": len(log),
                                                              "order": sp["blotter"]["order"]}, {"spec": sp, "kind": "blotter"})
    ctx.protocols.append((corr, len(meta), nd))


def gen_named_frame_spec(rng):
    """frames handed over by name through `additional_data` (Backtest re-frames those whose index is the data's index with a
    synthetic first row): a statistic / a target-weight frame on the full index with NaN gaps - warm-up rows, a name missing for a
    stretch - consumed on every date"""
    spec = R.gen_run_spec(rng, nested=False, T=rng.randint(8, 16))
    tk = spec["tickers"]
    for t in tk:
        spec["prices"][t] = [p if p is not None else 10.0 for p in spec["prices"][t]]
    T = len(spec["dates"])
    kind = rng.choice(["stat", "stat", "target"])
    cells = {}
    for t in tk:
        col = [float(rng.randint(1, 40)) / (1.0 if kind == "stat" else 80.0) for _ in range(T)]
        for _ in range(rng.randint(0, 2)):
            i = rng.randint(0, T - 1)
            for k in range(i, min(T, i + rng.randint(1, 3))):
                col[k] = None
        cells[t] = col
    if rng.random() < 0.5:
        w = rng.randint(1, 3)       # a common warm-up: the first rows are NaN for every name
        for t in tk:
            cells[t][:w] = [None] * w
    spec["named"] = {"kind": kind, "cells": cells, "n": rng.randint(1, max(1, len(tk) - 1)), "desc": rng.random() < 0.5}
    spec["kind"] = "named"
    return spec


def build_named(bt, spec):
    sp = copy.deepcopy(spec)
    nm = sp["named"]
    cells = nm["cells"]
    pt = sp.get("perturb")
    if pt:
        import random as _r
        r = _r.Random(pt.get("seed", 0))
        cut = pd.Timestamp(pt["cut"])
        for t, col in cells.items():
            for i, d in enumerate(sp["dates"]):
                if pd.Timestamp(d) > cut:
                    col[i] = None if (pt["mode"] == "nan" or col[i] is None) else col[i] * r.uniform(0.1, 3.0) + r.uniform(0, 1) * (1.0 if nm["kind"] == "stat" else 0.01)
    frame = R.frame(cells, sp["dates"])
    data = R.frame(sp["prices"], sp["dates"])
    a = bt.algos
    if nm["kind"] == "stat":
        algos = [a.RunDaily(), a.SelectAll(), a.SetStat("extra"), a.SelectN(nm["n"], sort_descending=nm["desc"]), a.WeighEqually(), a.Rebalance()]
    else:
        algos = [a.RunDaily(), a.WeighTarget("extra"), a.Rebalance()]
    s = bt.Strategy("top", algos=algos, children=list(sp["tickers"]))
    return bt.Backtest(s, data, initial_capital=sp["capital"], integer_positions=sp["integer"], additional_data={"extra": frame}, progress_bar=False)


def gen_plan(rng, dates):
    i = rng.randint(0, len(dates) - 2)
    return {"cut": dates[i], "mode": rng.choice(["nan", "x10", "flip", "random", "random", "drop"]), "seed": rng.randint(0, 10 ** 6),
            "pos": "early" if i < len(dates) // 3 else ("late" if i > 2 * len(dates) // 3 else "mid")}


def run(ctx, bt, scale=1):
    for _ in range(ctx.scale(110, 3000) * scale):
        spec = R.gen_run_spec(ctx.rng)
        spec["perturb_plan"] = gen_plan(ctx.rng, spec["dates"])
        ctx.evaluations += 1
        ctx.classes.add((len(spec["tree"]["kids"]), tuple(d[0] for d in spec["tree"]["stack"]), spec["perturb_plan"]["mode"], spec["perturb_plan"]["pos"]))
        if len(ctx.samples) < 2:
            ctx.sample({"tree": spec["tree"], "plan": spec["perturb_plan"]})
        run_pair(ctx, bt, spec, build_program)
    for _ in range(ctx.scale(40, 800) * scale):
        spec = FI.gen_program(ctx.rng, winddown=True)
        if ctx.rng.random() < 0.5:
            # a security that pays nothing over the whole sample as supplied (while it does carry a holding cost)
            nm0 = ctx.rng.choice(spec["names"])
            spec["coupons"][nm0] = [0.0] * len(spec["dates"])
            for side in ("cost_long", "cost_short"):
                if spec.get(side) is None:
                    spec[side] = {}
                spec[side][nm0] = [0.125] * len(spec["dates"])
        spec["kind"] = "fi"
        spec["perturb_plan"] = gen_plan(ctx.rng, spec["dates"])
        if spec["perturb_plan"]["mode"] in ("flip", "drop"):
            spec["perturb_plan"]["mode"] = "random"
        ctx.evaluations += 1
        ctx.classes.add(("fi", tuple(spec["kinds"]), spec["sched"], spec["perturb_plan"]["mode"], spec["perturb_plan"]["pos"]))
        run_pair(ctx, bt, spec, build_fi)
    # programs driven by supplied frames other than prices (a statistic published on a subset of the dates, with and without a lag;
    # a signal frame; dated target weights): these are where a look-up can reach past `now`
    for _ in range(ctx.scale(80, 1200) * scale):
        spec = R.gen_run_spec(ctx.rng, nested=False, T=ctx.rng.randint(8, 16))
        tk = spec["tickers"]
        ds = pd.DatetimeIndex(spec["dates"])
        gap = max([1] + [int((b - a).days) for a, b in zip(ds[:-1], ds[1:])])
        kind = ctx.rng.choice(["stat", "stat", "stat", "where", "target"])
        sched = ["RunDaily", True, False, False]
        if kind == "stat":
            st = [sched, ["SelectAll"], ["SetStatSelectN", ctx.rng.randint(0, 10 ** 6), ctx.rng.randint(1, max(1, len(tk) - 1)), gap * ctx.rng.randint(0, 2), ctx.rng.random() < 0.5],
                  ["WeighEqually"], ["Rebalance"]]
        elif kind == "where":
            st = [sched, ["SelectAll"], ["SelectWhere", ctx.rng.randint(0, 10 ** 6), ctx.rng.random() < 0.5], ["WeighEqually"], ["Rebalance"]]
        else:
            st = [sched, ["SelectAll"], ["WeighTarget", ctx.rng.randint(0, 10 ** 6)], ["Rebalance"]]
        spec["tree"] = {"name": "top", "tickers": list(tk), "kids": [], "stack": st}
        for t in tk:
            spec["prices"][t] = [p if p is not None else 10.0 for p in spec["prices"][t]]
        spec["perturb_plan"] = gen_plan(ctx.rng, spec["dates"])
        if spec["perturb_plan"]["mode"] == "x10":
            spec["perturb_plan"]["mode"] = "random"     # a common factor leaves every ranking as it is
        ctx.evaluations += 1
        ctx.classes.add(("frames", kind, spec["perturb_plan"]["mode"], spec["perturb_plan"]["pos"]))
        run_pair(ctx, bt, spec, build_program)
    # frames passed by name through additional_data, on the full index, with NaN gaps
    for _ in range(ctx.scale(40, 600) * scale):
        spec = gen_named_frame_spec(ctx.rng)
        spec["perturb_plan"] = gen_plan(ctx.rng, spec["dates"])
        spec["perturb_plan"]["mode"] = "nan" if spec["perturb_plan"]["mode"] in ("drop", "nan") else "random"
        ctx.evaluations += 1
        ctx.classes.add(("named-frame", spec["named"]["kind"], spec["perturb_plan"]["mode"], spec["perturb_plan"]["pos"]))
        run_pair(ctx, bt, spec, build_named)
    # programs driven by a blotter / a request list (rows in any order, also dated between data dates)
    bspecs = []
    for _ in range(ctx.scale(40, 600) * scale):
        spec = gen_blotter_spec(ctx.rng)
        bspecs.append(spec)
        spec["perturb_plan"] = gen_plan(ctx.rng, spec["dates"])
        spec["perturb_plan"]["mode"] = "drop" if spec["perturb_plan"]["mode"] in ("drop", "nan") else "random"
        ctx.evaluations += 1
        ctx.count("blotter-rows-order:" + spec["blotter"]["order"])
        ctx.classes.add(("blotter", spec["blotter"]["algo"], spec["blotter"]["order"], spec["perturb_plan"]["mode"], spec["perturb_plan"]["pos"]))
        run_pair(ctx, bt, spec, build_blotter)
    blotter_protocol(ctx, bt, bspecs)
    # risk programs: UpdateRisk + HedgeRisks over unit-risk tables that change on every date (FixedIncomeStrategy, hedge instruments
    # with multipliers, lazily created instruments); the tables - and nothing else - are perturbed after the cut
    from .. import risk_lib as RL
    for _ in range(ctx.scale(30, 600) * scale):
        rs = RL.gen_risk_backtest_spec(ctx.rng)
        cut_i = ctx.rng.randint(0, len(rs["dates"]) - 2)
        ctx.evaluations += 1
        ctx.classes.add(("risk", len(rs["unit_risk"]), "early" if cut_i < len(rs["dates"]) // 3 else ("late" if cut_i > 2 * len(rs["dates"]) // 3 else "mid")))
        run_risk_pair(ctx, bt, rs, cut_i)
    if scale == 1:
        # the Lean theorems say every engine operation at clock d reads the supplied columns at row d only (truncation commutes):
        # the model is given the data truncated at the clock of each step and must still reproduce the real post-state
        from ..runs_run import run_steps_protocol, run_days_protocol
        run_steps_protocol(ctx, bt, ctx.scale(10, 250), None, "run-steps[C04]:data-truncated-at-clock", trunc=True)
        run_days_protocol(ctx, bt, ctx.scale(8, 200), None, "btday[C04]:data-truncated-at-clock", trunc=True,
                          make_spec=lambda rng: R.gen_run_spec(rng, nested=rng.random() < 0.5))
        run_steps_protocol(ctx, bt, ctx.scale(6, 150), None, "run-steps[C04]:fixed-income:data-truncated-at-clock", trunc=True,
                           make_spec=FI.gen_program, build=FI.build_program)
        # the program model the whole-backtest theorems (`prog_backtest_causal`) speak about, executed end to end
        from .. import whole_run as W
        W.whole_run_protocol(ctx, bt, ctx.scale(15, 300), "whole-run[C04]")
        # blotter-driven strategies (ReplayTransactions / SimulateRFQTransactions) inside the whole-program model (`progRunR`): the
        # model `C04.progRunR_causalWith` / `blotter_backtest_causal` speak about, executed end to end
        from .. import whole_run_r as WR
        WR.blotter_whole_run_protocol(ctx, bt, ctx.scale(15, 300), "whole-run-r[C04]")


def search(ctx, bt):
    run(ctx, bt, 4)


def replay(bt, data, ctx):
    case = data["case"]
    if case.get("kind") == "risk":
        run_risk_pair(ctx, bt, case["risk_spec"], case["cut_i"])
        return
    spec = case["spec"]
    run_pair(ctx, bt, spec, build_fi if case.get("kind") == "fi" else build_blotter if case.get("kind") == "blotter" else build_named if case.get("kind") == "named" else build_program)
