"""C04 no look-ahead: every generated backtest is run twice from fresh objects - once on the data as generated, once with every
supplied value dated after a random cut perturbed (prices, bid/offer, target-weight frames, signals, statistics, coupons) -
and all node histories up to the cut are compared bit for bit."""
import copy

import pandas as pd

from .. import engine as E
from .. import gen_runs as R
from .. import runsnap as S
from . import C17 as FI

RULE = ("generated programs over all stock scheduling / selection / statistic / weighting / rebalancing algos of the generator (incl. lookback "
        "and lag windows, WeighTarget / SelectWhere / SetStat frames, nested trees, fixed-income programs); cut date uniform over the index; "
        "perturbations: NaN, x10, sign flip, fresh random, dropped rows; histories up to the cut compared bit for bit (runs that raise after "
        "the cut are compared on what they recorded); parents whose own stack opens sub-strategies mid-run (setup_from_parent) after reading the "
        "universe of the date, then SelectHasData / weigher / Rebalance, with recently listed names suspended, re-listed or repriced after the cut. "
        "distinct = (program shape, perturbation mode, cut position class)")
ASSUMPTIONS = ["external kernels (ffn, scipy) are deterministic functions of the frames they are handed"]


def run_pair(ctx, bt, spec, builder):
    cut = spec["perturb_plan"]["cut"]
    base = copy.deepcopy(spec)
    base.pop("perturb", None)
    pert = copy.deepcopy(spec)
    pert["perturb"] = spec["perturb_plan"]
    hs = []
    for sp in (base, pert):
        root = None
        try:
            b = builder(bt, sp)
            root = b.strategy
            b.run()
        except Exception as e:  # noqa
            ctx.count("run-raised:" + E.classify_exc(e))
            if root is None or not hasattr(root, "data"):
                return
        hs.append(S.node_histories(bt, root, cut))
    ctx.count("pairs-compared")
    d = S.first_diff(hs[0], hs[1])
    if d is not None:
        ctx.violation("C04/history-depends-on-later-data:" + spec["perturb_plan"]["mode"],
                      "perturbing data after %s (%s) changed history up to the cut: %s" % (cut, spec["perturb_plan"]["mode"], d),
                      {"spec": spec, "kind": spec.get("kind", "program")})


def run_risk_pair(ctx, bt, rs, cut_i):
    from .. import risk_lib as RL
    cut = rs["dates"][cut_i]
    hs = []
    for pert in (None, cut_i):
        root = None
        try:
            b = RL.build_risk_backtest(bt, rs, perturb_after=pert)
            root = b.strategy
            b.run()
        except Exception as e:  # noqa
            ctx.count("risk-run-raised:" + E.classify_exc(e))
            if root is None or not hasattr(root, "data"):
                return
        h = S.node_histories(bt, root, cut)
        try:
            rh = RL.risk_backtest_history(b, cut)
            flat = {"price": rh.get("price", [])}
            for sec, v in rh.get("positions", {}).items():
                flat["pos:" + sec] = v
            for node, ms in rh.get("risks", {}).items():
                for m, v in ms.items():
                    flat["risk:%s:%s" % (node, m)] = v
            h["__risk__"] = {k: [(-1 if x is None else E.f2b(float(x))) for x in v] for k, v in flat.items()}
        except Exception:
            pass
        hs.append(h)
    ctx.count("risk-pairs-compared")
    d = S.first_diff(hs[0], hs[1])
    if d is not None:
        ctx.violation("C04/history-depends-on-later-data:unit-risk", "perturbing the unit-risk tables after %s changed history up to the cut: %s" % (cut, d),
                      {"risk_spec": rs, "cut_i": cut_i, "kind": "risk"})


def build_program(bt, spec):
    b, data, add = R.build_backtest(bt, spec)
    return b


def build_fi(bt, spec):
    sp = copy.deepcopy(spec)
    pt = sp.get("perturb")
    if pt:
        cut = pd.Timestamp(pt["cut"])
        k = sum(1 for d in sp["dates"] if pd.Timestamp(d) <= cut)
        import random as _r
        r = _r.Random(pt.get("seed", 0))
        for name in ("prices", "coupons", "cost_long", "cost_short"):
            if sp.get(name):
                for t, col in sp[name].items():
                    for i in range(k, len(col)):
                        if pt["mode"] == "nan":
                            col[i] = None if name == "prices" else 0.0
                        elif pt["mode"] == "x10":
                            col[i] = col[i] * 10.0
                        else:
                            # (a coupon / cost of exactly zero may well become non-zero later on)
                            col[i] = abs(col[i]) * r.uniform(0.2, 3.0) + (1.0 if name == "prices" else r.choice([0.0, 0.25, 0.5]))
        for i in range(k, len(sp["notional"])):
            sp["notional"][i] = sp["notional"][i] * 7.0
    return FI.build_program(bt, sp)


def gen_blotter_spec(rng):
    """a program driven by a supplied (Date, Security) frame - a blotter replayed by ReplayTransactions or requests answered by
    SimulateRFQTransactions - whose rows are dated between the data's dates too (executed on the next date) and come in any order:
    chronological, security by security, reversed, shuffled"""
    spec = R.gen_run_spec(rng, nested=False, T=rng.randint(8, 16))
    tk = spec["tickers"]
    for t in tk:
        spec["prices"][t] = [p if p is not None else 10.0 for p in spec["prices"][t]]
    ds = [pd.Timestamp(d) for d in spec["dates"]]
    rows = []
    for i, d in enumerate(ds):
        for t in tk:
            if rng.random() < 0.35:
                when = d
                if i > 0 and rng.random() < 0.25:       # dated between two data dates: belongs to the step that ends at d
                    when = ds[i - 1] + (d - ds[i - 1]) / 2
                px = spec["prices"][t][i]
                rows.append([str(when), t, float(rng.choice([1, 2, 5, 10, -1, -3, 20])), float(px * rng.choice([1.0, 1.0, 0.99, 1.02]))])
    order = rng.choice(["chronological", "by-security", "reversed", "shuffled"])
    if order == "by-security":
        rows.sort(key=lambda r: (r[1], r[0]))
    elif order == "reversed":
        rows.reverse()
    elif order == "shuffled":
        rng.shuffle(rows)
    spec["blotter"] = {"rows": rows, "order": order, "algo": rng.choice(["replay", "replay", "rfq"])}
    spec["kind"] = "blotter"
    return spec


def build_blotter(bt, spec):
    sp = copy.deepcopy(spec)
    rows = sp["blotter"]["rows"]
    pt = sp.get("perturb")
    if pt:
        import random as _r
        r = _r.Random(pt.get("seed", 0))
        cut = pd.Timestamp(pt["cut"])
        out = []
        for when, t, q, px in rows:
            if pd.Timestamp(when) > cut:
                if pt["mode"] == "drop":
                    continue
                q, px = q * r.choice([-2.0, 3.0, 0.5, 7.0]), px * r.uniform(0.5, 2.0)
            out.append([when, t, q, px])
        rows = out
    idx = pd.MultiIndex.from_tuples([(pd.Timestamp(w), t) for w, t, _, _ in rows], names=["Date", "Security"]) if rows else \
        pd.MultiIndex.from_arrays([pd.DatetimeIndex([]), []], names=["Date", "Security"])
    frame = pd.DataFrame({"quantity": [r_[2] for r_ in rows], "price": [r_[3] for r_ in rows]}, index=idx, dtype=float)
    data = R.frame(sp["prices"], sp["dates"])
    if sp["blotter"]["algo"] == "replay":
        algo = bt.algos.ReplayTransactions("blotter")
    else:
        def model(rfqs, target):       # every request is filled, a touch worse than asked
            out = rfqs.copy()
            out["price"] = out["price"] * 1.001
            return out
        algo = bt.algos.SimulateRFQTransactions("blotter", model)
    s = bt.Strategy("top", algos=[algo], children=[bt.Security(t) for t in sp["tickers"]])
    return bt.Backtest(s, data, initial_capital=sp["capital"], integer_positions=False, additional_data={"blotter": frame, "bidoffer": {}}, progress_bar=False)


def blotter_protocol(ctx, bt, specs, corr="blotter:rows-per-call"):
    """the model's row selection (`Bt.Blotter.selectIdx`, the subject of `select_causal` / `window_disjoint` / `window_covers`) vs
    the trades the real algos issue: every `transact` of a run is tapped with the date of the call, and must be the picked rows in
    frame order (RFQ: at the model's answered price)"""
    from ..leanrun import run_lines
    lines, meta = [], []
    core = bt.core
    for spec in specs:
        for sp in (spec, dict(spec, perturb=spec["perturb_plan"])):
            log = []
            orig = core.SecurityBase.transact

            def tap(self, q, update=True, update_self=True, price=None, _orig=orig):
                try:
                    log.append((int(self.root.data.index.get_loc(self.root.now)), self.name, float(q), None if price is None else float(price)))
                except Exception:
                    pass
                return _orig(self, q, update, update_self, price)
            core.SecurityBase.transact = tap
            try:
                b = build_blotter(bt, sp)
                b.run()
            except Exception as e:  # noqa
                ctx.count("blotter-run-raised:" + E.classify_exc(e))
                continue
            finally:
                core.SecurityBase.transact = orig
            if b.strategy.bankrupt:
                ctx.count("blotter-run-bankrupt:not-compared")     # liquidation trades, and no calls after the bankruptcy
                continue
            frame = b.additional_data["blotter"]
            stamps = [int(pd.Timestamp(x).value) for x in frame.index.get_level_values("Date")]
            tl = [int(pd.Timestamp(x).value) for x in b.data.index]
            lines.append("blotter %s %s" % (E.tL(tl, str), E.tL(stamps, str)))
            meta.append((sp, frame, log, len(tl)))
    outs = run_lines(lines) if lines else []
    nd = 0
    for (sp, frame, log, n), o in zip(meta, outs):
        toks = o.split()
        if not toks or toks[0] != "ok":
            nd += 1
            ctx.disagreement("corr:%s:driver-rejected" % corr, {"answer": o[:200]}, {"spec": sp, "kind": "blotter"})
            continue
        vals = [int(x) for x in toks[1:]]
        k = 0
        want = []
        mult = 1.001 if sp["blotter"]["algo"] == "rfq" else 1.0
        for i in range(n):
            m = vals[k]
            for j in vals[k + 1:k + 1 + m]:
                r = frame.iloc[j]
                want.append((i, frame.index[j][1], float(r["quantity"]), float(r["price"]) * mult if mult != 1.0 else float(r["price"])))
            k += 1 + m
        ctx.count("blotter:rows-picked", len(want))
        ctx.count("blotter:rows-in-frames", len(frame))
        if want != log:
            nd += 1
            first = next((x for x in zip(want + [None] * len(log), log + [None] * len(want)) if x[0] != x[1]), None)
            ctx.disagreement("corr:%s:trades-differ" % corr, {"first-difference (model, real)": repr(first), "model-rows": len(want), "real-trades": len(log),
                                                              "order": sp["blotter"]["order"]}, {"spec": sp, "kind": "blotter"})
    ctx.protocols.append((corr, len(meta), nd))


def gen_named_frame_spec(rng):
    """frames handed over by name through `additional_data` (Backtest re-frames those whose index is the data's index with a
    synthetic first row): a statistic / a target-weight frame on the full index with NaN gaps - warm-up rows, a name missing for a
    stretch - consumed on every date"""
    spec = R.gen_run_spec(rng, nested=False, T=rng.randint(8, 16))
    tk = spec["tickers"]
    for t in tk:
        spec["prices"][t] = [p if p is not None else 10.0 for p in spec["prices"][t]]
    T = len(spec["dates"])
    kind = rng.choice(["stat", "stat", "target"])
    cells = {}
    for t in tk:
        col = [float(rng.randint(1, 40)) / (1.0 if kind == "stat" else 80.0) for _ in range(T)]
        for _ in range(rng.randint(0, 2)):
            i = rng.randint(0, T - 1)
            for k in range(i, min(T, i + rng.randint(1, 3))):
                col[k] = None
        cells[t] = col
    if rng.random() < 0.5:
        w = rng.randint(1, 3)       # a common warm-up: the first rows are NaN for every name
        for t in tk:
            cells[t][:w] = [None] * w
    spec["named"] = {"kind": kind, "cells": cells, "n": rng.randint(1, max(1, len(tk) - 1)), "desc": rng.random() < 0.5}
    spec["kind"] = "named"
    return spec


def build_named(bt, spec):
    sp = copy.deepcopy(spec)
    nm = sp["named"]
    cells = nm["cells"]
    pt = sp.get("perturb")
    if pt:
        import random as _r
        r = _r.Random(pt.get("seed", 0))
        cut = pd.Timestamp(pt["cut"])
        for t, col in cells.items():
            for i, d in enumerate(sp["dates"]):
                if pd.Timestamp(d) > cut:
                    col[i] = None if (pt["mode"] == "nan" or col[i] is None) else col[i] * r.uniform(0.1, 3.0) + r.uniform(0, 1) * (1.0 if nm["kind"] == "stat" else 0.01)
    frame = R.frame(cells, sp["dates"])
    data = R.frame(sp["prices"], sp["dates"])
    a = bt.algos
    if nm["kind"] == "stat":
        algos = [a.RunDaily(), a.SelectAll(), a.SetStat("extra"), a.SelectN(nm["n"], sort_descending=nm["desc"]), a.WeighEqually(), a.Rebalance()]
    else:
        algos = [a.RunDaily(), a.WeighTarget("extra"), a.Rebalance()]
    s = bt.Strategy("top", algos=algos, children=list(sp["tickers"]))
    return bt.Backtest(s, data, initial_capital=sp["capital"], integer_positions=sp["integer"], additional_data={"extra": frame}, progress_bar=False)


# (rows are never removed: the property speaks of changed VALUES after t, and the stock schedulers treat the last row of the index
# specially - `run_on_last_date` - by design)
DYN_MODES = ["suspend", "suspend", "suspend", "relist", "relist", "nan", "random"]


def gen_dynamic_spec(rng):
    """a parent whose own stack opens sub-strategies while the run is going on (`bt.Strategy(name, algos, children, parent=target)`,
    `setup_from_parent()`, as examples/pairs_trading.py does) - usually after having looked at `target.universe` on that date - and then
    goes on, on the same date, with SelectHasData (the stock algo whose window has no upper end of its own), a weigher and Rebalance.
    Some securities were listed only a few rows before the opening date, so that the number of prices inside the lookback decides the
    `min_count` test. After the cut: other numbers / the recently listed names stop trading / everything NaN / (the names
    are halted after the cut as supplied, and trade on in the twin)"""
    T = rng.randint(14, 24)
    dates, ikind = R.gen_index(rng, T, kind=rng.choice(["D", "B", "B", "W", "sparse"]))
    n = rng.randint(3, 5)
    tk = R.TICKERS[:n]
    prices = {}
    for t in tk:
        p = rng.uniform(20.0, 120.0)
        col = []
        for _ in range(T):
            col.append(round(p, 2))
            p = max(1.0, p * (1.0 + rng.uniform(-0.03, 0.035)))
        prices[t] = col
    d = rng.randint(6, T - 4)                       # row on which the (first) sub-strategy is opened
    recent = rng.sample(tk[2:], rng.randint(1, min(2, n - 2)))
    listed = {}
    for t in recent:
        L = rng.randint(1, 5)                       # prices the name has on row d, that row included
        listed[t] = L
        for i in range(0, d - L + 1):
            prices[t][i] = None
    w = rng.randint(max(listed.values()), d - 1)    # the window reaches w rows back from row d
    ds = [pd.Timestamp(x) for x in dates]
    lookback_days = int((ds[d] - ds[d - w]).days)
    if rng.random() < 0.15:
        min_count = rng.randint(1, min(listed.values()))                    # met on row d already
    else:
        min_count = min(w + 1, rng.choice(list(listed.values())) + rng.randint(1, 3))      # met only with prices that come later
    opens = []
    for k in range(rng.randint(1, 2)):
        row = d if k == 0 else rng.randint(d, T - 2)
        pair = rng.sample(tk[:2] + [t for t in tk[2:] if t not in recent], 2) if n - len(recent) >= 2 else list(tk[:2])
        if rng.random() < 0.3:
            # opened on the first date from `row` on, on which the price seen today is at least a level (which it is on `row`)
            opens.append({"kind": "price", "after": row, "ticker": pair[0], "level": prices[pair[0]][row] * rng.choice([0.5, 0.9, 1.0]), "tickers": pair})
        else:
            opens.append({"kind": "date", "row": row, "tickers": pair})
        opens[-1]["stack"] = rng.choice(["once-equal", "once-equal", "daily-all", "idle"])
    sched = rng.choice(["daily", "daily", "dates"])
    rows = sorted(set([d] + [o.get("row", o.get("after")) for o in opens] + rng.sample(range(1, T), rng.randint(0, 4))))
    i = min(T - 2, d + rng.randint(0, 2)) if rng.random() < 0.7 else rng.randint(0, T - 2)
    mode = rng.choice(DYN_MODES)
    spec = {"kind": "dynamic", "dates": dates, "index": ikind, "tickers": tk, "prices": prices, "capital": 1000000.0,
            "dyn": {"d": d, "recent": sorted(recent), "listed": listed, "lookback_days": lookback_days, "min_count": min_count,
                    "include_no_data": rng.random() < 0.2, "opens": opens, "sched": sched, "rows": rows,
                    "reads": rng.choice(["today", "today", "today", "frame", "none"]), "bring": rng.choice(["parent", "parent", "child"]),
                    "momentum": rng.randint(1, n) if rng.random() < 0.2 else None,
                    "weigher": rng.choice(["equal", "equal", "equal", "invvol"]), "share": rng.choice([0.1, 0.2, 0.5]),
                    # as supplied, these names stop trading right after the cut (and trade on in the twin: mode "relist")
                    "halt": {t: i + 1 for t in (recent if rng.random() < 0.6 else recent[:1])} if mode == "relist" else {}},
            "perturb_plan": {"cut": dates[i], "mode": mode, "seed": rng.randint(0, 10 ** 6),
                             "pos": "before-open" if i < d else ("open-date" if i == d else "after-open")}}
    return spec


def dynamic_frame(spec):
    """the price frame of a `gen_dynamic_spec` run; with `spec['perturb']`, the twin's frame: equal on every row dated <= cut"""
    import random as _r
    cols = copy.deepcopy(spec["prices"])
    dates = list(spec["dates"])
    dyn = spec["dyn"]
    pt = spec.get("perturb")
    T = len(dates)
    k = T if not pt else sum(1 for x in dates if pd.Timestamp(x) <= pd.Timestamp(pt["cut"]))
    for t, row in dyn["halt"].items():
        if not (pt and pt["mode"] == "relist" and row >= k):
            for i in range(row, T):
                cols[t][i] = None
    if pt:
        r = _r.Random(pt.get("seed", 0))
        mode = pt["mode"]
        for t in spec["tickers"]:
            for i in range(k, T):
                v = cols[t][i]
                if mode == "nan" or (mode == "suspend" and t in dyn["recent"]):
                    cols[t][i] = None
                elif mode in ("random", "suspend") and v is not None:
                    cols[t][i] = round(v * r.uniform(0.5, 1.6), 2)
    return R.frame(cols, dates)


def build_dynamic(bt, spec):
    a = bt.algos
    dyn = spec["dyn"]
    data = dynamic_frame(spec)
    row_of = {pd.Timestamp(x): i for i, x in enumerate(spec["dates"])}
    names = ["T%d" % k for k in range(len(dyn["opens"]))]

    def child_stack(op):
        if op["stack"] == "once-equal":
            return [a.RunOnce(), a.SelectThese(list(op["tickers"])), a.WeighEqually(), a.Rebalance()]
        if op["stack"] == "daily-all":
            return [a.RunDaily(), a.SelectAll(), a.WeighEqually(), a.Rebalance()]
        return []

    class Open(bt.Algo):
        """opens the sub-strategies that are due, having looked at the data of today"""

        def __call__(self, target):
            i = row_of.get(pd.Timestamp(target.now))
            if i is None:
                return True
            px = None
            if dyn["reads"] == "today":
                px = target.universe.loc[target.now]
            elif dyn["reads"] == "frame":
                _ = len(target.universe)
            for name, op in zip(names, dyn["opens"]):
                if name in target.children:
                    continue
                if op["kind"] == "date":
                    fire = i >= op["row"]
                else:
                    p = px if px is not None else target.universe.loc[target.now]
                    fire = i >= op["after"] and bool(p[op["ticker"]] >= op["level"])
                if fire:
                    kid = bt.Strategy(name, child_stack(op), children=list(op["tickers"]), parent=target)
                    kid.setup_from_parent()
                    if dyn["bring"] == "parent":
                        target.update(target.now)       # brings the new node to today's date (as the example does)
                    else:
                        kid.update(target.now)
            return True

    class Fund(bt.Algo):
        """gives every open sub-strategy a share of the capital, the rest keeps its proportions"""

        def __call__(self, target):
            live = [nm for nm in names if nm in target.children]
            w = {k: v for k, v in target.temp.get("weights", {}).items() if k not in names}
            rest = 1.0 - dyn["share"] * len(live) / float(len(names))
            w = {k: v * rest for k, v in w.items()}
            for nm in live:
                w[nm] = dyn["share"] / float(len(names))
            target.temp["weights"] = w
            return True

    lb = pd.DateOffset(days=dyn["lookback_days"])
    stack = [a.RunDaily() if dyn["sched"] == "daily" else a.RunOnDate(*[spec["dates"][r] for r in dyn["rows"]]), Open(),
             a.SelectHasData(lookback=lb, min_count=dyn["min_count"], include_no_data=dyn["include_no_data"])]
    if dyn["momentum"]:
        stack.append(a.SelectMomentum(dyn["momentum"], lookback=lb))
    stack += [a.WeighEqually() if dyn["weigher"] == "equal" else a.WeighInvVol(lookback=lb), Fund(), a.Rebalance()]
    s = bt.Strategy("top", algos=stack)
    return bt.Backtest(s, data, initial_capital=spec["capital"], integer_positions=False, progress_bar=False)


def dynamic_twin_cases(ctx, bt, n):
    for _ in range(n):
        spec = gen_dynamic_spec(ctx.rng)
        dyn, plan = spec["dyn"], spec["perturb_plan"]
        ctx.evaluations += 1
        ctx.count("dynamic-substrategy-twin-runs")
        ctx.count("dynamic-substrategy-twin-runs:" + plan["mode"])
        ctx.count("dynamic-substrategy-twin-runs:cut-" + plan["pos"])
        if dyn["reads"] != "none" or any(o["kind"] == "price" for o in dyn["opens"]):
            ctx.count("dynamic-substrategy-twin-runs:universe-read-before-the-opening")
        ctx.classes.add(("dynamic", len(dyn["opens"]), dyn["sched"], dyn["reads"], dyn["weigher"], plan["mode"], plan["pos"]))
        before = len(ctx.violations)
        run_pair(ctx, bt, spec, build_dynamic)
        if len(ctx.violations) > before:
            break


def gen_plan(rng, dates):
    i = rng.randint(0, len(dates) - 2)
    return {"cut": dates[i], "mode": rng.choice(["nan", "x10", "flip", "random", "random", "drop"]), "seed": rng.randint(0, 10 ** 6),
            "pos": "early" if i < len(dates) // 3 else ("late" if i > 2 * len(dates) // 3 else "mid")}


def run(ctx, bt, scale=1):
    # sub-strategies opened by the parent's own stack mid-run, followed on the same date by an open-ended window reader
    dynamic_twin_cases(ctx, bt, ctx.scale(30, 800) * scale)
    for _ in range(ctx.scale(110, 3000) * scale):
        spec = R.gen_run_spec(ctx.rng)
        spec["perturb_plan"] = gen_plan(ctx.rng, spec["dates"])
        ctx.evaluations += 1
        ctx.classes.add((len(spec["tree"]["kids"]), tuple(d[0] for d in spec["tree"]["stack"]), spec["perturb_plan"]["mode"], spec["perturb_plan"]["pos"]))
        if len(ctx.samples) < 2:
            ctx.sample({"tree": spec["tree"], "plan": spec["perturb_plan"]})
        run_pair(ctx, bt, spec, build_program)
    for _ in range(ctx.scale(40, 800) * scale):
        spec = FI.gen_program(ctx.rng, winddown=True)
        if ctx.rng.random() < 0.5:
            # a security that pays nothing over the whole sample as supplied (while it does carry a holding cost)
            nm0 = ctx.rng.choice(spec["names"])
            spec["coupons"][nm0] = [0.0] * len(spec["dates"])
            for side in ("cost_long", "cost_short"):
                if spec.get(side) is None:
                    spec[side] = {}
                spec[side][nm0] = [0.125] * len(spec["dates"])
        spec["kind"] = "fi"
        spec["perturb_plan"] = gen_plan(ctx.rng, spec["dates"])
        if spec["perturb_plan"]["mode"] in ("flip", "drop"):
            spec["perturb_plan"]["mode"] = "random"
        ctx.evaluations += 1
        ctx.classes.add(("fi", tuple(spec["kinds"]), spec["sched"], spec["perturb_plan"]["mode"], spec["perturb_plan"]["pos"]))
        run_pair(ctx, bt, spec, build_fi)
    # programs driven by supplied frames other than prices (a statistic published on a subset of the dates, with and without a lag;
    # a signal frame; dated target weights): these are where a look-up can reach past `now`
    for _ in range(ctx.scale(80, 1200) * scale):
        spec = R.gen_run_spec(ctx.rng, nested=False, T=ctx.rng.randint(8, 16))
        tk = spec["tickers"]
        ds = pd.DatetimeIndex(spec["dates"])
        gap = max([1] + [int((b - a).days) for a, b in zip(ds[:-1], ds[1:])])
        kind = ctx.rng.choice(["stat", "stat", "stat", "where", "target"])
        sched = ["RunDaily", True, False, False]
        if kind == "stat":
            st = [sched, ["SelectAll"], ["SetStatSelectN", ctx.rng.randint(0, 10 ** 6), ctx.rng.randint(1, max(1, len(tk) - 1)), gap * ctx.rng.randint(0, 2), ctx.rng.random() < 0.5],
                  ["WeighEqually"], ["Rebalance"]]
        elif kind == "where":
            st = [sched, ["SelectAll"], ["SelectWhere", ctx.rng.randint(0, 10 ** 6), ctx.rng.random() < 0.5], ["WeighEqually"], ["Rebalance"]]
        else:
            st = [sched, ["SelectAll"], ["WeighTarget", ctx.rng.randint(0, 10 ** 6)], ["Rebalance"]]
        spec["tree"] = {"name": "top", "tickers": list(tk), "kids": [], "stack": st}
        for t in tk:
            spec["prices"][t] = [p if p is not None else 10.0 for p in spec["prices"][t]]
        spec["perturb_plan"] = gen_plan(ctx.rng, spec["dates"])
        if spec["perturb_plan"]["mode"] == "x10":
            spec["perturb_plan"]["mode"] = "random"     # a common factor leaves every ranking as it is
        ctx.evaluations += 1
        ctx.classes.add(("frames", kind, spec["perturb_plan"]["mode"], spec["perturb_plan"]["pos"]))
        run_pair(ctx, bt, spec, build_program)
    # frames passed by name through additional_data, on the full index, with NaN gaps
    for _ in range(ctx.scale(40, 600) * scale):
        spec = gen_named_frame_spec(ctx.rng)
        spec["perturb_plan"] = gen_plan(ctx.rng, spec["dates"])
        spec["perturb_plan"]["mode"] = "nan" if spec["perturb_plan"]["mode"] in ("drop", "nan") else "random"
        ctx.evaluations += 1
        ctx.classes.add(("named-frame", spec["named"]["kind"], spec["perturb_plan"]["mode"], spec["perturb_plan"]["pos"]))
        run_pair(ctx, bt, spec, build_named)
    # programs driven by a blotter / a request list (rows in any order, also dated between data dates)
    bspecs = []
    for _ in range(ctx.scale(40, 600) * scale):
        spec = gen_blotter_spec(ctx.rng)
        bspecs.append(spec)
        spec["perturb_plan"] = gen_plan(ctx.rng, spec["dates"])
        spec["perturb_plan"]["mode"] = "drop" if spec["perturb_plan"]["mode"] in ("drop", "nan") else "random"
        ctx.evaluations += 1
        ctx.count("blotter-rows-order:" + spec["blotter"]["order"])
        ctx.classes.add(("blotter", spec["blotter"]["algo"], spec["blotter"]["order"], spec["perturb_plan"]["mode"], spec["perturb_plan"]["pos"]))
        run_pair(ctx, bt, spec, build_blotter)
    blotter_protocol(ctx, bt, bspecs)
    # risk programs: UpdateRisk + HedgeRisks over unit-risk tables that change on every date (FixedIncomeStrategy, hedge instruments
    # with multipliers, lazily created instruments); the tables - and nothing else - are perturbed after the cut
    from .. import risk_lib as RL
    for _ in range(ctx.scale(30, 600) * scale):
        rs = RL.gen_risk_backtest_spec(ctx.rng)
        cut_i = ctx.rng.randint(0, len(rs["dates"]) - 2)
        ctx.evaluations += 1
        ctx.classes.add(("risk", len(rs["unit_risk"]), "early" if cut_i < len(rs["dates"]) // 3 else ("late" if cut_i > 2 * len(rs["dates"]) // 3 else "mid")))
        run_risk_pair(ctx, bt, rs, cut_i)
    if scale == 1:
        # the Lean theorems say every engine operation at clock d reads the supplied columns at row d only (truncation commutes):
        # the model is given the data truncated at the clock of each step and must still reproduce the real post-state
        from ..runs_run import run_steps_protocol, run_days_protocol
        run_steps_protocol(ctx, bt, ctx.scale(10, 250), None, "run-steps[C04]:data-truncated-at-clock", trunc=True)
        run_days_protocol(ctx, bt, ctx.scale(8, 200), None, "btday[C04]:data-truncated-at-clock", trunc=True,
                          make_spec=lambda rng: R.gen_run_spec(rng, nested=rng.random() < 0.5))
        run_steps_protocol(ctx, bt, ctx.scale(6, 150), None, "run-steps[C04]:fixed-income:data-truncated-at-clock", trunc=True,
                           make_spec=FI.gen_program, build=FI.build_program)
        # the program model the whole-backtest theorems (`prog_backtest_causal`) speak about, executed end to end
        from .. import whole_run as W
        W.whole_run_protocol(ctx, bt, ctx.scale(15, 300), "whole-run[C04]")
        # blotter-driven strategies (ReplayTransactions / SimulateRFQTransactions) inside the whole-program model (`progRunR`): the
        # model `C04.progRunR_causalWith` / `blotter_backtest_causal` speak about, executed end to end
        from .. import whole_run_r as WR
        WR.blotter_whole_run_protocol(ctx, bt, ctx.scale(15, 300), "whole-run-r[C04]")


def search(ctx, bt):
    run(ctx, bt, 4)


def replay(bt, data, ctx):
    case = data["case"]
    if case.get("kind") == "risk":
        run_risk_pair(ctx, bt, case["risk_spec"], case["cut_i"])
        return
    spec = case["spec"]
    run_pair(ctx, bt, spec, build_fi if case.get("kind") == "fi" else build_blotter if case.get("kind") == "blotter" else build_named if case.get("kind") == "named" else build_dynamic if case.get("kind") == "dynamic" else build_program)
