"""`whole-run` protocol: complete (flat and nested) Backtest.run() of generated programs of the shape
[RunPeriod(flags), SelectAll | SelectThese, WeighEqually | WeighSpecified, Rebalance] executed by the real code and - from the
real post-setup trees (the backtest's own and every shadow copy's) - by the Lean model `Bt.Prog.simRun`; the final trees
(every field, every recorded row of every node, shadow copies included) are compared."""
import contextlib

import pandas as pd

from . import engine as E
from . import gen_runs as R
from . import leanrun

KINDS = {"RunDaily": 0, "RunWeekly": 1, "RunMonthly": 2, "RunQuarterly": 3, "RunYearly": 4}


def gen_stack(rng, names, lev=False):
    sched = [rng.choice(list(KINDS)), rng.random() < 0.7, rng.random() < 0.3, rng.random() < 0.3]
    if rng.random() < 0.3:
        sched[0] = "RunDaily"
    if rng.random() < 0.75:
        sel = ["SelectAll"]
    else:
        k = rng.randint(1, len(names))
        sel = ["SelectThese", rng.sample(names, k)]
    if rng.random() < (0.6 if not lev else 0.0):
        wgh = ["WeighEqually"]
    else:
        k = rng.randint(1, len(names))
        pick = rng.sample(names, k)
        tot = rng.choice([1.0, 1.0, 0.75, 0.5, 1.25]) if not lev else rng.choice([1.5, 2.0, 3.0, 4.0, 6.0])
        raw = [rng.choice([1, 1, 2, 3]) for _ in pick]
        ws = {n: tot * r / sum(raw) for n, r in zip(pick, raw)}
        if rng.random() < 0.15 and len(pick) > 1:
            ws[pick[0]] = -ws[pick[0]] / 2        # a short leg
        wgh = ["WeighSpecified", ws]
    return [sched, sel, wgh, ["Rebalance"]]


def gen_spec(rng, nested=None, depth3=False, lev=False, crash=False):
    """lev: the root's weights are levered (1.5x-6x) so that crash paths bankrupt it"""
    spec = R.gen_run_spec(rng, nested=False, T=rng.randint(5, 26), crash=crash)
    tick = list(spec["tickers"])
    if nested is None:
        nested = rng.random() < 0.45

    def mk(name, avail, depth):
        own = rng.sample(avail, rng.randint(1, len(avail)))      # declared in any order (not the data's)
        kids = []
        if depth > 0 and rng.random() < (0.9 if depth == (2 if depth3 else 1) else 0.5):
            for i in range(rng.randint(1, 2)):
                kids.append(mk("%s_s%d" % (name, i), avail, depth - 1))
        names = [k["name"] for k in kids] + own
        return {"name": name, "tickers": own, "kids": kids, "stack": gen_stack(rng, names, lev and name == "top")}

    spec["tree"] = mk("top", tick, (2 if depth3 else 1) if nested else 0)
    # late listings: only selectors that filter on data may meet a NaN price
    def all_follow(t):
        return t["stack"][2][0] == "WeighEqually" and all(all_follow(k) for k in t["kids"])
    if all_follow(spec["tree"]):
        T = len(spec["dates"])
        for t in tick:
            if rng.random() < 0.25:
                k = rng.randint(1, max(1, T // 2))
                spec["prices"][t] = [None] * k + spec["prices"][t][k:]
    else:
        for t in tick:
            spec["prices"][t] = [p if p is not None else 10.0 for p in spec["prices"][t]]
    spec["whole"] = True
    spec["eager"] = True
    return spec


def stamp_tokens(dates_index):
    out = []
    for ts in dates_index:
        ts = pd.Timestamp(ts)
        tod = ((ts.hour * 60 + ts.minute) * 60 + ts.second) * 10 ** 9 + ts.microsecond * 1000 + ts.nanosecond
        out.append("%d %d %d %d" % (ts.year, ts.month, ts.day, tod))
    return out


def ser_prog(bt, node, spec_node):
    """program tree of a live strategy node (child indices from the live `_childrenv`, universe order from the live universe)"""
    kids = list(node._childrenv)
    name_idx = {k.name: i for i, k in enumerate(kids)}
    sched, sel, wgh = spec_node["stack"][0], spec_node["stack"][1], spec_node["stack"][2]
    toks = [str(KINDS[sched[0]]), E.tB(sched[1]), E.tB(sched[2]), E.tB(sched[3])]
    ucols = [name_idx[c] for c in node._universe.columns if c in name_idx]
    toks.append(E.tL(ucols, str))
    if sel[0] == "SelectAll":
        toks.append("A 0 0")
    else:
        toks.append("T %s 0 0" % E.tL([name_idx[n] for n in sel[1] if n in name_idx and n in node._universe.columns], str))
    if wgh[0] == "WeighEqually":
        toks.append("E")
    else:
        items = [(name_idx[n], w) for n, w in wgh[1].items()]
        toks.append("S %d %s" % (len(items), " ".join("%d %s" % (i, E.tF(w)) for i, w in items)))
    by_name = {k["name"]: k for k in spec_node["kids"]}
    toks.append(str(len(kids)))
    for k in kids:
        if isinstance(k, bt.core.StrategyBase):
            toks.append("P " + ser_prog(bt, k, by_name[k.name]))
        else:
            toks.append("N")
    return " ".join(toks)


def sub_strategies(bt, root):
    """(path, node, spec-free) of every strategy strictly below root, preorder"""
    out = []

    def rec(n, path):
        for i, k in enumerate(n._childrenv):
            if isinstance(k, bt.core.StrategyBase):
                out.append((path + [i], k))
                rec(k, path + [i])
    rec(root, [])
    return out


def spec_at(spec_node, root, node):
    """the spec node describing `node` (found by walking names from the root of its own tree)"""
    names = []
    n = node
    while n.parent is not n:
        names.append(n.name)
        n = n.parent
    s = spec_node
    for nm in reversed(names):
        s = {k["name"]: k for k in s["kids"]}[nm]
    return s


def ser_sim(bt, root, spec_node, snaps):
    """root: a live root strategy (after setup); spec_node: the spec of that root's definition; snaps: list collecting the live
    roots in the order the driver will print them"""
    snaps.append(root)
    w = E.snap_world(bt, root)
    toks = [E.ser_world(w), ser_prog(bt, root, spec_node)]
    subs = sub_strategies(bt, root)
    toks.append(str(len(subs)))
    for path, k in subs:
        toks.append(E.ser_path(path))
        toks.append(ser_sim(bt, k._paper, spec_at(spec_node, root, k), snaps))
    return " ".join(toks)


@contextlib.contextmanager
def capture_after_setup(bt, top, hook):
    """call hook() right before the first `adjust` on `top` (= after Backtest.run's setup)"""
    c = bt.core
    orig = c.StrategyBase.adjust
    done = [False]

    def w(self, amount, update=True, flow=True, fee=0.0):
        if self is top and not done[0]:
            done[0] = True
            hook()
        return orig(self, amount, update, flow, fee)
    c.StrategyBase.adjust = w
    try:
        yield
    finally:
        c.StrategyBase.adjust = orig


@contextlib.contextmanager
def tap_close_dead(bt, cap):
    """counts, from outside, what the real CloseDead calls of a run met: children whose price was <= 0, of these the ones holding a
    position, names deleted from temp['weights']"""
    cls = bt.algos.CloseDead
    orig = cls.__call__
    taps = cap.setdefault("dead_taps", {})

    def w(self, target):
        try:
            if "weights" in target.temp:
                taps["calls"] = taps.get("calls", 0) + 1
                tw = target.temp["weights"]
                for c in target.children:
                    px = target.universe[c].loc[target.now]
                    if px <= 0:
                        taps["children-with-price<=0"] = taps.get("children-with-price<=0", 0) + 1
                        if getattr(target.children[c], "_position", 0.0) != 0:
                            taps["of-these-holding-a-position"] = taps.get("of-these-holding-a-position", 0) + 1
                        if c in tw:
                            taps["names-deleted-from-weights"] = taps.get("names-deleted-from-weights", 0) + 1
        except Exception:  # noqa
            pass
        return orig(self, target)
    cls.__call__ = w
    try:
        yield
    finally:
        cls.__call__ = orig


def whole_run_protocol(ctx, bt, n, corr_name="whole-run", make_spec=None, footprint_fields=None, extended=False):
    cfg = E.live_cfg(bt)
    lines, meta = [], []
    for _ in range(n):
        spec = make_spec(ctx.rng) if make_spec else (gen_spec_x(ctx.rng, raising=True) if extended else gen_spec(ctx.rng))
        ctx.count(corr_name + ":programs")
        try:
            b, data, add = R.build_backtest(bt, spec)
        except Exception as e:  # noqa
            ctx.count(corr_name + ":build-raised:" + E.classify_exc(e))
            continue
        cap = {}

        def hook():
            roots = []
            cap["line"] = ser_simx(bt, b.strategy, spec["tree"], roots, b.dates) if extended else ser_sim(bt, b.strategy, spec["tree"], roots)
            cap["roots"] = roots
        err = None
        try:
            with capture_after_setup(bt, b.strategy, hook), tap_close_dead(bt, cap):
                b.run()
        except Exception as e:  # noqa
            err = E.classify_exc(e)
            ctx.count(corr_name + ":real-raised:" + err)
        if "line" not in cap:
            continue
        if any(E.has_nan_state(E.snap_world(bt, r)) for r in cap["roots"]) and err is None:
            ctx.count(corr_name + ":skipped:nan-state")
            continue
        dates = list(range(len(b.dates)))
        line = (("wholeruns" if has_memory(spec["tree"]) else "wholerunx") if extended else "wholerun") + " %s %s %s %s %s" % (E.ser_cfg(cfg), E.tF(float(spec["capital"])), E.tL(dates, str),
                                            E.tL(stamp_tokens(b.dates), str), cap["line"])
        lines.append(line)
        meta.append((spec, err, [E.snap_world(bt, r) for r in cap["roots"]]))
        depth = 0
        t = spec["tree"]
        while t["kids"]:
            depth += 1
            t = t["kids"][0]
        ctx.count(corr_name + ":depth-%d" % depth)
        if extended:
            def post_counts(t):
                for d in t["stack"]:
                    if d[0] in POST_ALGOS:
                        ctx.count("whole-run-x:post:" + d[0] + (":run_always" if d[0] == "RebalanceOverTime" and len(d) > 2 and d[2] else ""))
                if any(d[0] in POST_ALGOS for d in t["stack"]):
                    ctx.count("whole-run-x:post:strategies-with-post-steps")
                ctx.count("whole-run-x:post:strategies")
                if not any(d_[0] in WEIGHERS for d_ in t["stack"]):
                    ctx.count("whole-run-x:blotter-driven-strategy")      # no selection / weigher: rows of a frame are executed
                    for k in t["kids"]:
                        post_counts(k)
                    return
                _, _, sels_, wgh_, post_ = split_stack_x(t["stack"])
                for d in sels_:
                    ctx.count("whole-run-x:sel:" + d[0])
                    if d[0] == "SetStatSelectN":
                        ctx.count("whole-run-x:sel:SetStat")
                        ctx.count("whole-run-x:sel:SelectN")
                ctx.count("whole-run-x:weigher:" + wgh_[0] + ("+post" if (wgh_[0] == "WeighTarget" and (post_ or t["stack"][-1][0] != "Rebalance")) else ""))
                if any(d[0] in SEL_F or d[0] == "CloseDead" for d in t["stack"]) or (wgh_[0] == "WeighTarget" and (post_ or sels_ or t["stack"][-1][0] != "Rebalance")):
                    ctx.count("whole-run-x:strategies-with-new-steps")
                for k in t["kids"]:
                    post_counts(k)
            post_counts(spec["tree"])
            if spec.get("dead"):
                ctx.count("whole-run-x:programs-with-a-zero-price-spell")
            for k_, v_ in cap.get("dead_taps", {}).items():
                ctx.count("whole-run-x:CloseDead:" + k_, v_)
        ctx.count(corr_name + ":worlds(root+shadow-copies)", len(cap["roots"]))
        ctx.classes.add(("whole", depth, spec["tree"]["stack"][0][0], tuple(x[0] for x in spec["tree"]["stack"][1:-1]),
                         spec["integer"], spec["comm"][0], spec["bidoffer"] is not None, bool(b.strategy.bankrupt)))
    outs = leanrun.run_lines(lines) if lines else []
    nd = 0
    nbit = nfl = 0
    for (spec, err, finals), o in zip(meta, outs):
        detail = None
        if o.startswith("bad"):
            detail = {"kind": "driver-rejected", "answer": o[:200]}
        elif o.startswith("err "):
            m = o[4:].strip()
            if err is None:
                detail = {"kind": "model-raises", "model": m, "real": "ok"}
            elif extended and m == "BadPath" and err.split(":")[-1] in ("IndexError", "KeyError", "ValueError", "TypeError"):
                ctx.count(corr_name + ":selection-error-agreed:" + err.split(":")[-1])   # the model maps every error of a selection algo to one kind
            elif err != m and not err.startswith("PaperRun"):
                detail = {"kind": "error-kind", "real": err, "model": m}
        else:
            if err is not None:
                detail = {"kind": "real-raises", "real": err, "model": "ok"}
            else:
                t = E._Toks(o[3:])
                k = t.nat()
                if k != len(finals):
                    detail = {"kind": "world-count", "real": len(finals), "model": k}
                else:
                    for j in range(k):
                        stale = t.boo()
                        root = E.parse_node(t)
                        c = E.cmp_world(finals[j], {"stale": stale, "root": root})
                        nbit += c.nbit
                        nfl += c.nfloat
                        diffs = c.diffs
                        if footprint_fields is not None:
                            import re
                            diffs = [d for d in diffs if re.sub(r"\[\d+\]$", "", d["field"]) in footprint_fields]
                        if diffs and detail is None:
                            detail = {"kind": "state", "world": j, "diffs": diffs[:6]}
        if detail is not None:
            nd += 1
            ctx.disagreement("corr:%s:%s" % (corr_name, (detail.get("diffs") or [{}])[0].get("field", detail["kind"])), detail, {"spec": spec})
    ctx.count(corr_name + ":floats-compared", nfl)
    ctx.count(corr_name + ":floats-bit-identical", nbit)
    ctx.protocols.append((corr_name, len(meta), nd))
    return len(meta), nd


# ---------------------------------------------------------------------------------------------------------------
# extended programs (`wholerunx`): the selection part is a sequence of SelectAll / SelectThese / SelectHasData / SelectMomentum
POST_ALGOS = ("ScaleWeights", "LimitWeights", "LimitDeltas", "SetCash", "RebalanceOverTime", "CloseDead")
WEIGHERS = ("WeighEqually", "WeighSpecified", "WeighTarget")
# selection algos driven by a frame the user supplies, and flow control on the selection
SEL_F = ("SelectWhere", "SetStatSelectN", "Require", "SelectRegex", "SelectTypes")


def gen_post_x(rng, names, wgh, raising=False, dead=False):
    """the algos between the weigher and Rebalance: about a third of the stacks carry one or two of ScaleWeights / LimitWeights /
    LimitDeltas / SetCash.  LimitWeights wants weights that sum to one (ffn raises otherwise): unless `raising`, it only follows a
    weigher whose weights do, and comes first.  CloseDead: anywhere after LimitWeights; almost always when a price of the data
    drops to exactly zero (`dead`) and the weigher names its securities itself (Rebalance cannot allocate at a zero price)."""
    by_name = wgh[0] in ("WeighSpecified", "WeighTarget")
    out = _gen_post_x(rng, names, wgh, raising)
    if rng.random() < (0.85 if (dead and by_name) else (0.3 if dead else 0.05)):
        first = 1 if (out and out[0][0] == "LimitWeights" and not raising) else 0
        out.insert(rng.randint(first, len(out)), ["CloseDead"])
    return out


def _gen_post_x(rng, names, wgh, raising=False):
    if rng.random() >= 0.36:
        return []
    n = len(names)
    sums_to_one = wgh[0] == "WeighEqually" or (wgh[0] == "WeighSpecified" and abs(sum(wgh[1].values()) - 1.0) < 1e-9
                                                and all(v > 0 for v in wgh[1].values()))

    def lw():
        k = n if wgh[0] != "WeighSpecified" else len(wgh[1])
        r = rng.random()
        if r < 0.15:
            return ["LimitWeights", rng.choice([0.5 / k, 0.9 / k, 0.05])]          # infeasible cap: the weights are emptied
        return ["LimitWeights", rng.choice([1.0 / k, 1.0 / k + 1.0 / 64, 0.3, 0.4, 0.5, 0.6, 0.75, 1.0, 1.0 / k + rng.random() * (1 - 1.0 / k)])]

    def ld():
        if rng.random() < 0.3:
            sub = [x for x in names if rng.random() < 0.6]
            return ["LimitDeltas", {x: rng.choice([0.0, 0.05, 0.1, 0.25, round(rng.random() * 0.5, 3)]) for x in sub}]
        return ["LimitDeltas", rng.choice([0.05, 0.1, 0.1, 0.25, 0.5, 1.0, round(rng.random() * 0.4, 3)])]

    def sc():
        return ["ScaleWeights", rng.choice([0.5, 0.75, 1.25, -0.5, 0.9])]

    def ca():
        return ["SetCash", rng.choice([0.25, 0.5, 0.125, 0.1])]
    out = []
    kinds = ["ScaleWeights", "LimitWeights", "LimitDeltas", "SetCash"]
    picks = rng.sample(kinds, rng.choice([1, 1, 2]))
    if raising and rng.random() < 0.12:
        # any order, any weigher: LimitWeights may meet weights that do not sum to one and raise
        for k in picks:
            out.append({"ScaleWeights": sc, "LimitWeights": lw, "LimitDeltas": ld, "SetCash": ca}[k]())
        return out
    if "LimitWeights" in picks:
        if sums_to_one:
            out.append(lw())
        picks = [k for k in picks if k != "LimitWeights"] or (["LimitDeltas"] if not sums_to_one else [])
    for k in picks:
        out.append({"ScaleWeights": sc, "LimitDeltas": ld, "SetCash": ca}[k]())
    return out


def any_stack(t, pred):
    return pred(t["stack"]) or any(any_stack(k, pred) for k in t["kids"])


def has_memory(t):
    """some stack of the tree ends in run_always(RebalanceOverTime): the driver then threads the algo objects' memory (`wholeruns`)"""
    last = t["stack"][-1]
    return (last[0] == "RebalanceOverTime" and len(last) > 2 and bool(last[2])) or any(has_memory(k) for k in t["kids"])


def split_stack_x(st):
    """(flow, scheduler, selection algos, weigher, post-processing algos incl. SetCash) of an extended stack"""
    st = list(st)
    flow = None
    if st[0][0] == "CapitalFlow":
        flow = float(st[0][1])
        st = st[1:]
    j = [i for i, d in enumerate(st) if d[0] in WEIGHERS][0]
    return flow, st[0], st[1:j], st[j], st[j + 1:-1]


def gen_sels_f(rng, names, raising=False):
    """selection parts built from the frame-driven algos: SelectWhere(signal frame), SetStat(frame, lag) + SelectN, and the
    flow-control / name filters Require, SelectRegex, SelectTypes.  Statistics have no two equal values in a row."""
    def where(keep=None):
        o = {"keep": rng.choice([1.0, 1.0, 0.6]) if keep is None else keep, "nan": rng.choice([0, 0, 0.15])}
        if rng.random() < 0.15:
            o["neg"] = True
        if rng.random() < 0.06:
            o["nd"] = True
        return ["SelectWhere", rng.randint(0, 10 ** 6), o]

    def statn(fs=None):
        n = rng.choice([rng.randint(1, max(1, len(names))), rng.randint(1, max(1, len(names))), rng.choice([0.5, 0.34, 0.75])])
        o = {"distinct": True, "nan": rng.choice([0, 0, 0.15]), "aon": rng.random() < 0.25,
             "fs": (rng.random() < 0.6) if fs is None else fs}
        return ["SetStatSelectN", rng.randint(0, 10 ** 6), n, rng.choice([0, 0, 1, 2, 3]), rng.random() < 0.6, o]
    q = rng.random()
    if q < 0.27:
        return [["SelectAll"], where()]
    if q < 0.35:
        w_ = where(1.0 if not (raising and rng.random() < 0.3) else 0.6)       # alone: a date absent from the frame leaves nothing selected
        if w_[2]["keep"] == 1.0:
            w_[2]["stamps"] = "midnight"       # ... so the frame of a program offered as well-formed has a row AT every date
        return [w_]
    if q < 0.62:
        return [["SelectAll"], statn()]
    if q < 0.72:
        return [["SelectAll"], where(), statn(True)]
    if q < 0.82:
        return [["SelectAll"], where(), ["Require", rng.random() < 0.5]]
    if q < 0.87:
        return [["Require", rng.random() < 0.7], ["SelectAll"], statn(), ["Require", False]]
    if q < 0.94:
        pat = rng.choice(["a|c", "^b", "[ace]", "s0$|d", "^top", "e$", "."])
        return [["SelectAll"], ["SelectRegex", pat]]
    incl, excl = rng.choice([(["SecurityBase"], []), (["Node"], ["StrategyBase"]), (["Node"], []), (["StrategyBase", "Security"], []),
                             (["Strategy"], [])])
    if rng.random() < 0.5:
        return [["SelectAll"], ["SelectTypes", incl, excl]]
    return [["SelectTypes", incl, excl], ["SelectHasData", rng.choice([1, 2, 3, 5]), 1]]


def sel_safe(sels):
    """every name the selection part can hand on has passed a filter on the current row's data"""
    ok = False
    for s_ in sels:
        if s_[0] in ("SelectAll", "SelectThese", "SelectHasData", "SelectMomentum"):
            ok = True
        elif s_[0] == "SelectWhere":
            o = s_[2] if len(s_) > 2 else {}
            ok = (not o.get("nd")) and (ok or o.get("keep", 1.0) >= 1.0)
        elif s_[0] == "SetStatSelectN":
            ok = ok and bool((s_[5] if len(s_) > 5 else {}).get("fs"))
        elif s_[0] == "SelectTypes":
            ok = ok
    return ok


def gen_stack_x(rng, names, lev=False, rank_ok=True, flow_ok=True, raising=False, dead=False):
    """rank_ok=False: no ranked selection by returns (a strategy over sub-strategies: their indices are exactly flat until they trade,
    so total returns tie exactly and the winner would be pandas' sort order, an implementation detail the model does not claim)"""
    base = gen_stack(rng, names, lev)
    sched, wgh = base[0], base[2]
    r = rng.random()
    if not rank_ok:
        r = 0.2 if r < 0.5 else 0.9
    if rng.random() < 0.3:
        sels = gen_sels_f(rng, names, raising)
    elif r < 0.25:
        sels = [["SelectAll"], ["SelectHasData", rng.choice([1, 2, 3, 5, 10]), rng.randint(1, 4)]]
    elif r < 0.6:
        sels = [["SelectAll"], ["SelectMomentum", rng.randint(1, max(1, len(names))), rng.choice([1, 2, 3, 7, 20]), rng.choice([0, 0, 1, 2])]]
    elif r < 0.75:
        sels = [["SelectHasData", rng.choice([2, 3, 5]), rng.randint(1, 3)], ["SelectMomentum", rng.randint(1, max(1, len(names))), rng.choice([2, 5, 9]), rng.choice([0, 1])]]
    elif r < 0.85:
        k = rng.randint(1, len(names))
        sels = [["SelectThese", rng.sample(names, k)], ["SelectMomentum", 1, rng.choice([2, 4]), 0]]
    else:
        sels = [base[1]]
    if any(s[0] in ("SelectHasData", "SelectMomentum") + SEL_F for s in sels):
        wgh = ["WeighEqually"]      # what a data filter selected is what gets traded
    r2 = rng.random()
    if r2 < 0.1:
        sched = ["RunOnce"]
    elif r2 < 0.2:
        nn = rng.randint(2, 4)
        sched = ["RunEveryNPeriods", nn, rng.randint(0, nn - 1)]
    elif r2 < 0.3:
        sched = ["RunAfterDays", rng.randint(1, 4)]
    # (a counting scheduler needs no special care any more: since the repair of StrategyBase.update a shadow copy is not run on the
    # synthetic row, so a stack that acts on its very first call acts on the first real date - in the backtest's own tree and in every
    # shadow copy alike; names without a price there are the business of `safe` in gen_spec_x, as for the calendar schedulers)
    last = ["Rebalance"]
    if rng.random() < 0.08:
        # RebalanceOverTime in place of Rebalance (no run_always wrapper: it is re-armed by every call that reaches it)
        last = ["RebalanceOverTime", rng.choice([1, 2, 3, 5, 10])]
    post = gen_post_x(rng, names, wgh, raising, dead)
    if rng.random() < 0.07:
        # run_always(RebalanceOverTime(n)): armed by a day on which the stack gets through, it keeps trading towards those weights on
        # the following calls (temp['cash'] is left out of these stacks: whether SetCash is reached depends on where the stack stops)
        last = ["RebalanceOverTime", rng.choice([2, 3, 4, 5, 8]), True]
        post = [d for d in post if d[0] != "SetCash"]
    st = [sched] + sels + [wgh] + post + [last]
    if rng.random() < 0.17 and sched[0] in KINDS:
        # dated target weights: [scheduler, (frame-driven selection, gating only)?, WeighTarget(frame over a subset of the dates),
        # post-processing?, Rebalance | RebalanceOverTime]
        wt = ["WeighTarget", rng.randint(0, 10 ** 6)]
        if rng.random() < 0.55:
            tsels = []
            if rng.random() < 0.25:
                tsels = gen_sels_f(rng, names)
            tpost = gen_post_x(rng, names, wt, raising, dead)
            tlast = last if rng.random() < 0.5 else ["Rebalance"]
            if len(tlast) > 2:
                tpost = [d for d in tpost if d[0] != "SetCash"]
            st = [sched] + tsels + [wt] + tpost + [tlast]
        else:
            st = [sched, wt, ["Rebalance"]]
    if flow_ok and rng.random() < 0.25:
        st = [["CapitalFlow", float(rng.choice([100.0, 2500.0, 10000.0, -50.0, -1000.0]))]] + st
    return st


def gen_spec_x(rng, nested=None, raising=False, dead=None):
    """raising: post-processing algos may be stacked so that LimitWeights raises (weights that do not sum to one).
    dead: one price column drops to exactly 0.0 on some row >= 2 (for the rest of the data or for a spell): what CloseDead is for;
    None: one program in five"""
    spec = gen_spec(rng, nested=nested)
    if spec["grid"] != "float":
        # ranked selection: avoid exact ties between total returns (pandas' sort is then an implementation detail)
        T = len(spec["dates"])
        for j, t in enumerate(spec["tickers"]):
            col = spec["prices"][t]
            spec["prices"][t] = [None if p is None else p * (1.0 + 0.001 * (j + 1)) + 0.0001 * i * (j + 1) for i, p in enumerate(col)]
    if dead is None:
        dead = rng.random() < 0.2
    dead = bool(dead) and len(spec["tickers"]) >= 2 and len(spec["dates"]) >= 5

    def redo(t):
        names = [k["name"] for k in t["kids"]] + t["tickers"]
        t["stack"] = gen_stack_x(rng, names, rank_ok=not t["kids"], raising=raising, dead=dead)
        for k in t["kids"]:
            redo(k)
    redo(spec["tree"])
    T = len(spec["dates"])
    for t in spec["tickers"]:
        if rng.random() < 0.25:
            k = rng.randint(1, max(1, T // 2))
            spec["prices"][t] = [None] * k + [p if p is not None else 10.0 + 0.37 * i for i, p in enumerate(spec["prices"][t][k:])]
    # a late listing may only meet stacks whose selection filters on data
    def safe(t):
        _, _, sels, wgh, _ = split_stack_x(t["stack"])
        return wgh[0] == "WeighEqually" and sel_safe(sels) and all(safe(k) for k in t["kids"])     # (a WeighTarget stack is not: it trades by name)
    if not safe(spec["tree"]):
        for j, t in enumerate(spec["tickers"]):
            spec["prices"][t] = [p if p is not None else 10.0 + 0.37 * i + j for i, p in enumerate(spec["prices"][t])]
    # a program that allocates to a name at a price of zero raises (documented): unless `raising`, a zero-price spell may only meet
    # stacks that trade what a `price > 0` filter selected on the day (no include_negative, no weights remembered across days)
    def dead_safe(t):
        _, _, sels, _, _ = split_stack_x(t["stack"])
        return not any(s_[0] == "SelectWhere" and len(s_) > 2 and s_[2].get("neg") for s_ in sels) and all(dead_safe(k) for k in t["kids"])
    if dead and not raising and not (safe(spec["tree"]) and dead_safe(spec["tree"]) and not has_memory(spec["tree"])
                                     and not any_stack(spec["tree"], lambda st: st[-1][0] == "RebalanceOverTime")):
        dead = False
    if dead:
        t = rng.choice(spec["tickers"])
        k = rng.randint(2, T - 2)
        end = T if rng.random() < 0.6 else min(T, k + rng.randint(1, 3))
        spec["prices"][t] = [0.0 if (k <= i < end and p is not None) else p for i, p in enumerate(spec["prices"][t])]
        spec["dead"] = [t, k, end]
    return spec


def live_algos(node, spec_stack):
    """the live algo objects of a strategy node, aligned with the descriptors of its stack"""
    algos = list(node.stack.algos)
    if len(algos) == len(spec_stack) + 1:
        algos = algos[1:]          # a Spy in front
    if len(algos) != len(spec_stack):
        raise ValueError("stack of %s: %d algos for %d descriptors" % (node.name, len(algos), len(spec_stack)))
    return algos


def ser_progx(bt, node, spec_node, bdates, first_row=1):
    kids = list(node._childrenv)
    name_idx = {k.name: i for i, k in enumerate(kids)}
    flow, sched, sels, wgh, post = split_stack_x(spec_node["stack"])
    live = dict((id(d), a) for d, a in zip(spec_node["stack"], live_algos(node, spec_node["stack"])))
    is_target = wgh[0] == "WeighTarget"
    last = spec_node["stack"][-1]
    rot_always = last[0] == "RebalanceOverTime" and len(last) > 2 and last[2]
    toks = ["R " + E.tF(float(last[1])) if rot_always else "X", E.tO(flow)]
    if sched[0] in KINDS:
        toks += [str(KINDS[sched[0]]), E.tB(sched[1]), E.tB(sched[2]), E.tB(sched[3])]
    elif sched[0] == "RunOnce":
        toks += ["5", str(first_row)]
    elif sched[0] == "RunEveryNPeriods":
        toks += ["6", str(sched[1]), str(sched[2]), str(first_row)]
    elif sched[0] == "RunAfterDays":
        toks += ["7", str(sched[1]), str(first_row)]
    else:
        raise ValueError(sched[0])
    ucols = [name_idx[c] for c in node._universe.columns if c in name_idx]
    toks.append(E.tL(ucols, str))
    dates = [pd.Timestamp(d) for d in bdates]
    n = len(dates)
    stoks = []
    for s in sels:
        if s[0] == "SelectAll":
            stoks.append("A 0 0")
        elif s[0] == "SelectThese":
            stoks.append("T %s 0 0" % E.tL([name_idx[x] for x in s[1]], str))
        elif s[0] == "SelectHasData":
            lb = pd.DateOffset(days=s[1])
            lo = [sum(1 for d in dates[:now + 1] if d < dates[now] - lb) for now in range(n)]
            stoks.append("H %s %d 0 0" % (E.tL(lo, str), s[2]))
        elif s[0] == "SelectMomentum":
            lb, lag = pd.DateOffset(days=s[2]), pd.DateOffset(days=s[3])
            wins = []
            for now in range(n):
                t0 = dates[now] - lag
                if dates[0] > t0:
                    wins.append("N")
                else:
                    a = t0 - lb
                    vis = dates[:now + 1]
                    wins.append("%d %d" % (sum(1 for d in vis if d < a), sum(1 for d in vis if d <= t0)))
            stoks.append("M %d %s I %d 0 0" % (n, " ".join(wins), s[1]))
        elif s[0] == "SelectWhere":
            # what the live algo will read: `signal.loc[now]` on the dates of its frame's index; a cell counts when `== True`
            algo = live[id(s)]
            sf = algo.signal
            rows = []
            for d in dates:
                if d in sf.index:
                    r = sf.loc[d]
                    cells = []
                    for c in sf.columns:
                        v = r[c]
                        cells.append("N" if v != v else ("1" if bool(v == True) else "0"))      # noqa: E712
                    rows.append("%d %s" % (len(cells), " ".join(cells)))
                else:
                    rows.append("N")
            stoks.append("W %s %d %s %s %s" % (E.tL([name_idx[c] for c in sf.columns], str), n, " ".join(rows),
                                               E.tB(algo.include_no_data), E.tB(algo.include_negative)))
        elif s[0] == "SetStatSelectN":
            # `stat.loc[now - lag]` when that date is in the frame's index (else SetStat answers False); then SelectN's parameters
            stack = live[id(s)]
            setstat, seln = stack.algos[0], stack.algos[1]
            sf = setstat.stat
            rows = []
            for d in dates:
                t0 = d - setstat.lag
                if t0 in sf.index:
                    r = sf.loc[t0]
                    cells = [E.tO(None if r[c] != r[c] else float(r[c])) for c in sf.columns]
                    rows.append("%d %s" % (len(cells), " ".join(cells)))
                else:
                    rows.append("N")
            ntok = ("I %d" % seln.n) if isinstance(seln.n, int) else ("R " + E.tF(float(seln.n)))
            stoks.append("N %s %d %s %s %s %s %s" % (E.tL([name_idx[c] for c in sf.columns], str), n, " ".join(rows), ntok,
                                                     E.tB(seln.ascending), E.tB(seln.all_or_none), E.tB(seln.filter_selected)))
        elif s[0] == "Require":
            stoks.append("Q " + E.tB(live[id(s)].if_none))
        elif s[0] == "SelectRegex":
            rx = live[id(s)].regex
            stoks.append("X " + E.tL([i for i, k in enumerate(kids) if rx.search(k.name)], str))
        elif s[0] == "SelectTypes":
            algo = live[id(s)]
            stoks.append("Y %s %s %s" % (E.tL([(i, type(k).__name__) for i, k in enumerate(kids)], lambda q: "%d %s" % q),
                                         E.tL([c.__name__ for c in algo.include_types], str),
                                         E.tL([c.__name__ for c in algo.exclude_types], str)))
        else:
            raise ValueError(s[0])
    toks.append("%d %s" % (len(stoks), " ".join(stoks)))
    if wgh[0] == "WeighEqually":
        toks.append("E")
    elif is_target:
        # `G`: one entry per row of the index - N when the date is not in the frame's index, else the row's non-missing weights
        wf = live[id(wgh)].weights
        rows = []
        for d in bdates:
            if d in wf.index:
                r = wf.loc[d]
                items = [(name_idx[c], float(r[c])) for c in wf.columns if r[c] == r[c]]
                rows.append("%d %s" % (len(items), " ".join("%d %s" % (i, E.tF(x)) for i, x in items)))
            else:
                rows.append("N")
        toks.append("G %d %s" % (len(rows), " ".join(rows)))
    else:
        items = [(name_idx[x], w) for x, w in wgh[1].items()]
        toks.append("S %d %s" % (len(items), " ".join("%d %s" % (i, E.tF(w)) for i, w in items)))
    # post-processing: `C scale` | `W limit` | `D order glob? per-name limits` | `K` (CloseDead); then temp['cash'] (SetCash) or N
    ptoks, cash = [], None
    for d in post:
        if d[0] == "ScaleWeights":
            ptoks.append("C " + E.tF(float(d[1])))
        elif d[0] == "LimitWeights":
            ptoks.append("W " + E.tF(float(d[1])))
        elif d[0] == "LimitDeltas":
            # the algo iterates over the children's names, then the targeted names that are not children yet, each once (before the
            # repair of LimitDeltas: over a set of strings, in the hash order of the process); every key of the weights is a child
            # here, so that is the children's order (new keys enter the dict - and are traded - in that order)
            order = [name_idx[x] for x in dict.fromkeys(list(node.children.keys()))]
            if isinstance(d[1], dict):
                per = [(name_idx[x], float(v)) for x, v in d[1].items()]
                ptoks.append("D %s N %s" % (E.tL(order, str), E.tL(per, lambda q: "%d %s" % (q[0], E.tF(q[1])))))
            else:
                ptoks.append("D %s %s 0" % (E.tL(order, str), E.tF(float(d[1]))))
        elif d[0] == "SetCash":
            cash = float(d[1])
        elif d[0] == "CloseDead":
            ptoks.append("K")
        else:
            raise ValueError(d[0])
    if rot_always:
        if cash is not None:
            raise ValueError("SetCash with run_always(RebalanceOverTime)")
    elif last[0] == "RebalanceOverTime":
        ptoks.append("O " + E.tF(float(last[1])))
    elif last[0] != "Rebalance":
        raise ValueError(last[0])
    toks.append("%d %s" % (len(ptoks), " ".join(ptoks)))
    toks.append(E.tO(cash))
    by_name = {k["name"]: k for k in spec_node["kids"]}
    toks.append(str(len(kids)))
    for k in kids:
        if isinstance(k, bt.core.StrategyBase):
            toks.append("P " + ser_progx(bt, k, by_name[k.name], bdates, first_row))
        else:
            toks.append("N")
    return " ".join(toks)


def ser_simx(bt, root, spec_node, snaps, bdates, first_row=1):
    """first_row: the row of the first run() call - 1 for the backtest's own tree and for every shadow copy (on row 0, the
    synthetic row, a shadow copy is only updated: StrategyBase.update `inow != 0`)"""
    snaps.append(root)
    w = E.snap_world(bt, root)
    toks = [E.ser_world(w), ser_progx(bt, root, spec_node, bdates, first_row)]
    subs = sub_strategies(bt, root)
    toks.append(str(len(subs)))
    for path, k in subs:
        toks.append(E.ser_path(path))
        toks.append(ser_simx(bt, k._paper, spec_at(spec_node, root, k), snaps, bdates, 1))
    return " ".join(toks)


# ---------------------------------------------------------------------------------------------------------------
# fixed-income programs: FixedIncomeStrategy over the five security classes, [RunDaily|RunWeekly, WeighSpecified, SetNotional, Rebalance]
def fi_whole_run_protocol(ctx, bt, n, corr_name="whole-run-fi", footprint_fields=None):
    from .props import C17 as FI
    cfg = E.live_cfg(bt)
    lines, meta = [], []
    for _ in range(n):
        spec = FI.gen_program(ctx.rng)
        spec["sched"] = ctx.rng.choice(["RunDaily", "RunWeekly"])
        ctx.count(corr_name + ":programs")
        try:
            b = FI.build_program(bt, spec)
        except Exception as e:  # noqa
            ctx.count(corr_name + ":build-raised:" + E.classify_exc(e))
            continue
        cap = {}

        def hook():
            root = b.strategy
            kids = list(root._childrenv)
            name_idx = {k.name: i for i, k in enumerate(kids)}
            w = E.snap_world(bt, root)
            items = [(name_idx[nm], x) for nm, x in spec["weights"].items()]
            nser = root.get_data("notional")
            notional = []
            for d in b.dates:
                if d in nser.index:
                    v = float(nser.loc[d])
                    notional.append(None if v != v else v)
                else:
                    notional.append(None)
            prog = "F %d 1 0 0 %d %s %s %d %s" % (KINDS[spec["sched"]], len(items), " ".join("%d %s" % (i, E.tF(x)) for i, x in items),
                                                  E.tL(notional, E.tO), len(kids), " ".join("N" for _ in kids))
            cap["line"] = "%s %s 0" % (E.ser_world(w), prog)
            cap["root"] = root
        err = None
        try:
            with capture_after_setup(bt, b.strategy, hook):
                b.run()
        except Exception as e:  # noqa
            err = E.classify_exc(e)
            ctx.count(corr_name + ":real-raised:" + err)
        if "line" not in cap:
            continue
        final = E.snap_world(bt, cap["root"])
        if E.has_nan_state(final) and err is None:
            ctx.count(corr_name + ":skipped:nan-state")
            continue
        dates = list(range(len(b.dates)))
        lines.append("wholerunx %s %s %s %s %s" % (E.ser_cfg(cfg), E.tF(float(b.initial_capital)), E.tL(dates, str),
                                                  E.tL(stamp_tokens(b.dates), str), cap["line"]))
        meta.append((spec, err, final))
        ctx.classes.add(("whole-fi", tuple(spec["kinds"]), spec["sched"], spec["integer"], spec["comm"][0], bool(spec["bidoffer"])))
    outs = leanrun.run_lines(lines) if lines else []
    nd = nbit = nfl = 0
    for (spec, err, final), o in zip(meta, outs):
        detail = None
        if o.startswith("bad"):
            detail = {"kind": "driver-rejected", "answer": o[:200]}
        elif o.startswith("err "):
            m = o[4:].strip()
            if err is None:
                detail = {"kind": "model-raises", "model": m, "real": "ok"}
            elif err != m:
                detail = {"kind": "error-kind", "real": err, "model": m}
        elif err is not None:
            detail = {"kind": "real-raises", "real": err, "model": "ok"}
        else:
            t = E._Toks(o[3:])
            k = t.nat()
            stale = t.boo()
            root = E.parse_node(t)
            c = E.cmp_world(final, {"stale": stale, "root": root})
            nbit += c.nbit
            nfl += c.nfloat
            diffs = c.diffs
            if footprint_fields is not None:
                import re
                diffs = [d for d in diffs if re.sub(r"\[\d+\]$", "", d["field"]) in footprint_fields]
            if diffs:
                detail = {"kind": "state", "diffs": diffs[:6]}
        if detail is not None:
            nd += 1
            ctx.disagreement("corr:%s:%s" % (corr_name, (detail.get("diffs") or [{}])[0].get("field", detail["kind"])), detail, {"spec": spec, "mode": "program"})
    ctx.count(corr_name + ":floats-compared", nfl)
    ctx.count(corr_name + ":floats-bit-identical", nbit)
    ctx.protocols.append((corr_name, len(meta), nd))
    return len(meta), nd
