"""Canonical snapshots of finished (or interrupted) backtests: every recorded series of every node as 64-bit patterns."""
import hashlib
import json

import numpy as np

from . import engine as E


def bits(a):
    out = []
    for x in np.asarray(a, dtype=float).ravel():
        out.append(E.f2b(x) if x == x else -1)
    return out


def node_histories(bt, root, upto=None):
    """{full_name: {series name: [bit patterns]}} for rows dated <= upto (all rows when None)"""
    c = bt.core
    out = {}
    for n in root.members:
        d = {}
        idx = n.data.index if hasattr(n, "data") else None
        if idx is None:
            continue
        k = len(idx) if upto is None else int(np.searchsorted(idx.values, np.datetime64(upto), side="right"))
        if isinstance(n, c.SecurityBase):
            names = ["_values", "_positions", "_notl_values", "_outlays", "_prices"]
            if n._bidoffer_set:
                names.append("_bidoffers_paid")
            if hasattr(n, "_coupon_income"):
                names += ["_coupon_income", "_holding_costs"]
        else:
            names = ["_prices", "_values", "_notl_values", "_cash", "_fees", "_all_flows"]
            if n._bidoffer_set:
                names.append("_bidoffers_paid")
        for nm in names:
            s = getattr(n, nm, None)
            if s is not None:
                d[nm] = bits(s.values[:k])
        out[n.full_name] = d
    return out


def digest(obj):
    return hashlib.sha256(json.dumps(obj, sort_keys=True, default=str).encode()).hexdigest()


def first_diff(a, b):
    for name in sorted(set(a) | set(b)):
        if name not in a or name not in b:
            # a lazily created node that one run created only after the cut: its rows up to the cut must be all zero
            other = a.get(name) or b.get(name)
            for ser, v in other.items():
                if ser == "_prices":
                    continue
                if any(x not in (0, 1 << 63) for x in v):
                    return "node %s exists in only one run and has non-zero %s rows before the cut" % (name, ser)
            continue
        for ser in sorted(set(a[name]) | set(b[name])):
            x = a[name].get(ser)
            y = b[name].get(ser)
            if x != y:
                if x is None or y is None or len(x) != len(y):
                    return "%s.%s: series present/length differs" % (name, ser)
                i = [j for j in range(len(x)) if x[j] != y[j]][0]
                return "%s.%s[row %d]: %r vs %r" % (name, ser, i, E.b2f(x[i]) if x[i] >= 0 else float("nan"), E.b2f(y[i]) if y[i] >= 0 else float("nan"))
    return None
