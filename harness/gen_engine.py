"""Generators of trees, data and operation histories for the engine (`step`) protocol."""
import numpy as np
import pandas as pd

from . import engine as E

TICKERS = ["a", "b", "c", "d", "e"]


def gen_tree(rng, fi_tree):
    """tree spec; securities are leaves {'sec': ticker, 'kind', 'mult'}."""
    def kids(depth, avail):
        n = rng.randint(1, 3 if depth else 4)
        out = []
        names = set()
        for _ in range(n):
            if depth < 2 and rng.random() < (0.3 if depth == 0 else 0.15):
                nm = "s%d%d" % (depth, len(out))
                sub = kids(depth + 1, avail)
                out.append({"name": nm, "fi": fi_tree and rng.random() < 0.7,
                            "algos": depth == 0 and all("sec" in k for k in sub) and rng.random() < 0.6,
                            "kids": sub})
            else:
                t = rng.choice(avail)
                if t in names:
                    continue
                names.add(t)
                if fi_tree:
                    kind = rng.choice([0, 1, 1, 2, 2, 2, 3, 4])
                else:
                    kind = 0
                out.append({"sec": t, "kind": kind, "mult": rng.choice([1.0, 1.0, 1.0, 10.0, 0.5, 100.0]),
                            "cfi": rng.random() < 0.8})
        if not out:
            out.append({"sec": avail[0], "kind": 1 if fi_tree else 0, "mult": 1.0, "cfi": True})
        return out
    return {"name": "root", "fi": fi_tree, "algos": False, "kids": kids(0, TICKERS)}


def fix_fi(tree, parent_fi=True):
    """a fixed-income sub-strategy under a market-value parent is ill-formed; keep well-formed here"""
    if "sec" in tree:
        return
    if tree["fi"] and not parent_fi:
        tree["fi"] = False
    for k in tree["kids"]:
        fix_fi(k, tree["fi"])


def gen_prices(rng, T, grid, nan_rate, lead_nan):
    cols = {}
    for t in TICKERS:
        if grid == "int":
            p = float(rng.randint(5, 60))
            path = []
            for _ in range(T):
                p = max(1.0, p + rng.randint(-4, 4))
                path.append(p)
        elif grid == "dyadic":
            p = rng.randint(40, 800) / 8.0
            path = []
            for _ in range(T):
                p = max(0.125, p + rng.randint(-24, 24) / 8.0)
                path.append(p)
        else:
            p = rng.uniform(5, 300)
            path = []
            for _ in range(T):
                p = p * (1 + rng.gauss(0, 0.03))
                path.append(p)
        if rng.random() < 0.18 and T >= 4:   # a worthless spell: price exactly zero for a few dates
            k = rng.randint(1, T - 2)
            for j in range(k, min(T, k + rng.randint(1, 3))):
                path[j] = 0.0
        path = [None if (rng.random() < nan_rate) else x for x in path]
        if rng.random() < 0.1:  # late listing
            k = rng.randint(1, max(1, T // 2))
            path = [None] * k + path[k:]
        if lead_nan:
            path[0] = None
        cols[t] = path
    return cols


def gen_spec(rng, tier="quick", fi_tree=None, grid=None):
    if fi_tree is None:
        fi_tree = rng.random() < 0.3
    if grid is None:
        grid = rng.choice(["int", "dyadic", "float", "float"])
    T = rng.randint(3, 9)
    lead_nan = rng.random() < 0.5
    tree = gen_tree(rng, fi_tree)
    fix_fi(tree, tree["fi"])
    spec = {
        "tree": tree, "grid": grid, "T": T, "integer": rng.random() < 0.55,
        "comm": rng.choice([[0, 0, 0], [0, 0, 0], [1, 2.0, 0], [2, 0, 0.25], [3, 0, 0.001], [3, 0, 0.015625], [4, 1.0, 0.01], [5, 1.0, 0.001]]),
        "prices": gen_prices(rng, T, grid, rng.choice([0.0, 0.0, 0.05]), lead_nan),
        "bidoffer": None, "coupons": None, "cost_long": None, "cost_short": None,
        "capital": float(rng.choice([1000, 10000, 100000, 1000000])),
    }
    if rng.random() < 0.4:
        bo = {}
        for t in TICKERS:
            if rng.random() < 0.8:
                b = rng.choice([0.0, 0.125, 0.25, 0.5, 1.0]) if grid != "float" else rng.uniform(0, 0.5)
                bo[t] = [(None if (lead_nan and i == 0) else b) for i in range(T)]
        spec["bidoffer"] = bo
    if fi_tree:
        cp = {}
        cl = {}
        cs = {}
        for t in TICKERS:
            base = rng.choice([0.0, 0.25, 0.5, 1.0]) if grid != "float" else rng.uniform(0, 1)
            cp[t] = [(None if (lead_nan and i == 0) else (base if rng.random() < 0.8 else 0.0)) for i in range(T)]
            if rng.random() < 0.7:
                c = rng.choice([0.0, 0.125, 0.0625]) if grid != "float" else rng.uniform(0, 0.1)
                cl[t] = [(None if (lead_nan and i == 0) else c) for i in range(T)]
            if rng.random() < 0.5:
                c = rng.choice([0.0, 0.125, 0.25]) if grid != "float" else rng.uniform(0, 0.2)
                cs[t] = [(None if (lead_nan and i == 0) else c) for i in range(T)]
        spec["coupons"] = cp
        spec["cost_long"] = cl if rng.random() < 0.8 else None
        spec["cost_short"] = cs if rng.random() < 0.8 else None
    return spec


def _frame(cols, dates):
    return pd.DataFrame({k: [np.nan if x is None else x for x in v] for k, v in cols.items()}, index=dates)


def build(bt, spec):
    """real tree + data for a spec; returns (root, dates)"""
    c = bt.core
    dates = pd.date_range("2020-01-01", periods=spec["T"], freq="D")

    def mk(t, is_root=False):
        if "sec" in t:
            cls = [c.Security, c.FixedIncomeSecurity, c.CouponPayingSecurity, c.HedgeSecurity, c.CouponPayingHedgeSecurity][t["kind"]]
            if t["kind"] in (2, 4):
                return cls(t["sec"], multiplier=t["mult"], fixed_income=t.get("cfi", True))
            return cls(t["sec"], multiplier=t["mult"])
        kids = [mk(k) for k in t["kids"]]
        algos = None
        if t.get("algos"):
            algos = [bt.algos.RunDaily(), bt.algos.SelectAll(), bt.algos.WeighEqually(), bt.algos.Rebalance()]
        if t["fi"]:
            s = bt.FixedIncomeStrategy(t["name"], algos=algos, children=kids)
        else:
            s = bt.Strategy(t["name"], algos=algos, children=kids)
        return s

    root = mk(spec["tree"], True)
    root.use_integer_positions(spec["integer"])
    root.set_commissions(E.make_comm(*spec["comm"]))
    data = _frame(spec["prices"], dates)
    kw = {}
    for k in ("bidoffer", "coupons", "cost_long", "cost_short"):
        if spec.get(k) is not None:
            kw[k] = _frame(spec[k], dates)
    if spec.get("coupons") is None and _has_coupon_sec(spec["tree"]):
        kw["coupons"] = _frame({t: [0.0] * spec["T"] for t in TICKERS}, dates)
    root.setup(data, **kw)
    return root, dates


def _has_coupon_sec(t):
    if "sec" in t:
        return t["kind"] in (2, 4)
    return any(_has_coupon_sec(k) for k in t["kids"])


def all_paths(tree, prefix=()):
    """[(path, is_sec, treenode)]"""
    out = [(list(prefix), "sec" in tree, tree)]
    if "sec" not in tree:
        for i, k in enumerate(tree["kids"]):
            out += all_paths(k, prefix + (i,))
    return out


def _amt(rng, grid, scale):
    if grid == "float":
        return scale * rng.uniform(-0.6, 0.9)
    return float(int(scale * rng.uniform(-0.6, 0.9)))


def gen_op(rng, spec, root, d, T):
    """choose the next operation given the real tree (public reads only via private cached fields, no refresh)."""
    paths = all_paths(spec["tree"])
    strat_paths = [p for p in paths if not p[1]]
    sec_paths = [p for p in paths if p[1]]
    grid = spec["grid"]
    V = abs(root._value) if root._value != 0 else abs(root._capital)
    if V == 0 or V != V:
        V = spec["capital"]
    r = rng.random()
    if r < 0.16 and d + 1 < T:
        return {"op": "update", "d": d + 1}
    if r < 0.22:
        return {"op": "update", "d": d}
    if r < 0.30:
        p = rng.choice(strat_paths)
        return {"op": "adjust", "path": p[0], "amount": _amt(rng, grid, V * 0.3), "update": rng.random() < 0.7, "flow": rng.random() < 0.6}
    if r < 0.52:
        p = rng.choice(paths)
        amt = _amt(rng, grid, V * 0.5)
        if p[1] and rng.random() < 0.15:
            n = E.node_at(root, p[0])
            amt = -n._value  # close-out shortcut
        if rng.random() < 0.04:
            amt = 0.0
        return {"op": "allocate", "path": p[0], "amount": amt, "update": rng.random() < 0.7}
    if r < 0.64:
        p = rng.choice(sec_paths if rng.random() < 0.8 else strat_paths)
        q = float(rng.randint(-40, 60)) if grid != "float" or rng.random() < 0.5 else rng.uniform(-40, 60)
        op = {"op": "transact", "path": p[0], "q": q, "update": rng.random() < 0.7, "price": None}
        if p[1] and spec["bidoffer"] is not None and rng.random() < 0.3:
            n = E.node_at(root, p[0])
            pr = n._price
            if pr == pr and pr != 0:
                op["price"] = pr + (rng.choice([-1.0, -0.5, 0.25, 1.0]) if grid != "float" else rng.uniform(-1, 1))
        if p[1] and spec["bidoffer"] is None and rng.random() < 0.03:
            op["price"] = 10.0
        return op
    if r < 0.80 and strat_paths:
        p = rng.choice(strat_paths)
        nk = len(p[2]["kids"])
        ch = rng.randrange(nk)
        w = rng.choice([0.0, 0.25, 0.5, -0.25, 1.0, 0.125]) if grid != "float" or rng.random() < 0.3 else rng.uniform(-0.5, 1.0)
        base = None
        if rng.random() < 0.5:
            base = V if grid == "float" else float(int(V))
        return {"op": "rebalance", "path": p[0], "weight": w, "child": ch, "base": base, "update": rng.random() < 0.6}
    if r < 0.86:
        p = rng.choice(strat_paths)
        return {"op": "close", "path": p[0], "child": rng.randrange(len(p[2]["kids"])), "update": rng.random() < 0.7}
    if r < 0.89:
        p = rng.choice(strat_paths)
        return {"op": "flatten", "path": p[0]}
    # reads
    p = rng.choice(paths)
    if p[1]:
        g = rng.choice([1, 2, 3, 0])
        if g == 0:
            attr = rng.choice(["value", "weight", "notional_value"])
        elif g == 3:
            attr = "position"
        else:
            attr = rng.choice(E.GETTERS[g])
        if attr in ("bidoffer_paid",) and spec["bidoffer"] is None:
            attr = "price"
    else:
        g = rng.choice([0, 0, 3, 4])
        attr = rng.choice(E.GETTERS[g])
    return {"op": "read", "path": p[0], "g": g, "attr": attr}


def run_history(bt, spec, rng=None, nops=30):
    """Executes a history on the real code.  With `spec['ops']` present it is replayed, else generated
    with `rng` and stored.  Returns the list of steps {pre, op, post | err}."""
    root, dates = build(bt, spec)
    T = spec["T"]
    ops = spec.get("ops")
    gen = ops is None
    if gen:
        ops = []
    steps = []
    d = 0
    i = 0
    while True:
        if gen:
            if i == 0:
                op = {"op": "adjust", "path": [], "amount": spec["capital"], "update": True, "flow": True}
            elif i == 1:
                op = {"op": "update", "d": 0}
            elif i >= nops:
                break
            else:
                op = gen_op(rng, spec, root, d, T)
            ops.append(op)
        else:
            if i >= len(ops):
                break
            op = ops[i]
        i += 1
        pre = E.snap_world(bt, root)
        try:
            E.exec_op(bt, root, dates, op)
        except Exception as e:  # noqa
            steps.append({"pre": pre, "op": op, "err": E.classify_exc(e), "msg": str(e)[:200]})
            break
        post = E.snap_world(bt, root)
        E.fill_paper(pre["root"], post["root"])
        steps.append({"pre": pre, "op": op, "post": post})
        if op["op"] == "update":
            d = op["d"]
    spec["ops"] = ops
    return steps, root, dates


def scripted_hold(rng, spec):
    """buy-and-hold script: fund, trade once or twice on early dates, then walk through every date
    (with redundant same-date updates and occasional extra trades) — exercises mark-to-market through
    price spells (zero prices, recoveries) on held positions."""
    T = spec["T"]
    ops = [{"op": "adjust", "path": [], "amount": spec["capital"], "update": True, "flow": True}, {"op": "update", "d": 0}]
    secs = [p for p in all_paths(spec["tree"]) if p[1]]
    d0 = 0
    if spec["prices"] and all(v[0] is None for v in spec["prices"].values()):
        ops.append({"op": "update", "d": 1})
        d0 = 1
    for p in secs:
        if rng.random() < 0.8:
            q = float(rng.randint(-30, 60)) or 5.0
            ops.append({"op": "transact", "path": p[0], "q": q, "update": rng.random() < 0.5, "price": None})
    ops.append({"op": "update", "d": d0})
    for d in range(d0 + 1, T):
        ops.append({"op": "update", "d": d})
        if rng.random() < 0.3:
            ops.append({"op": "observe", "on": "real"})
        if rng.random() < 0.25:
            ops.append({"op": "update", "d": d})
        if rng.random() < 0.2 and secs:
            p = rng.choice(secs)
            ops.append({"op": "transact", "path": p[0], "q": float(rng.randint(-20, 20)) or 3.0, "update": True, "price": None})
            ops.append({"op": "update", "d": d})
    ops.append({"op": "observe", "on": "real"})
    spec["ops"] = ops


def carry_open_close(rng, spec):
    """fixed-income root holding coupon-paying securities with non-zero coupons and holding costs; positions are opened, carried,
    closed to exactly zero in the middle of a date (after that date's first update has accrued carry on them), sometimes reopened;
    every date is closed by an update.  Exercises the accrual / sweep of carry around a close."""
    T = max(spec["T"], 5)
    spec["T"] = T
    kinds = [2, 2, 4, 1]
    rng.shuffle(kinds)
    names = ["a", "b", "c", "d"][:rng.randint(2, 4)]
    spec["tree"] = {"name": "root", "fi": True, "algos": False,
                    "kids": [{"sec": t, "kind": k, "mult": rng.choice([1.0, 1.0, 10.0]), "cfi": True} for t, k in zip(names, kinds)]}
    grid = spec["grid"]
    for t in TICKERS:
        p = float(rng.randint(80, 120))
        spec["prices"][t] = [p + rng.randint(-3, 3) for _ in range(T)]
    spec["coupons"] = {t: [rng.choice([0.25, 0.5, 1.0, 2.0]) for _ in range(T)] for t in TICKERS}
    # one-sided cost schedules are common (only longs are financed): long only / short only / both / none
    sides = rng.choice(["long", "long", "short", "both", "both", "none"])
    spec["cost_long"] = {t: [rng.choice([0.125, 0.25, 0.5]) for _ in range(T)] for t in TICKERS} if sides in ("long", "both") else None
    spec["cost_short"] = {t: [rng.choice([0.125, 0.25]) for _ in range(T)] for t in TICKERS} if sides in ("short", "both") else None
    spec["bidoffer"] = None
    ops = [{"op": "adjust", "path": [], "amount": spec["capital"], "update": True, "flow": True}, {"op": "update", "d": 0}]
    held = {}
    for i in range(len(names)):
        q = float(rng.choice([-1, 1, 1]) * rng.randint(5, 60))
        ops.append({"op": "transact", "path": [i], "q": q, "update": rng.random() < 0.5, "price": None})
        held[i] = q
    ops.append({"op": "update", "d": 0})
    for d in range(1, T):
        ops.append({"op": "update", "d": d})
        for i in list(held):
            r = rng.random()
            if held[i] != 0 and r < 0.35:
                how = rng.random()
                if how < 0.5:
                    ops.append({"op": "transact", "path": [i], "q": -held[i], "update": rng.random() < 0.5, "price": None})
                else:
                    ops.append({"op": "close", "path": [], "child": i, "update": rng.random() < 0.5})
                held[i] = 0.0
            elif held[i] != 0 and r < 0.6:
                # flip the sign of the position in one trade (long -> short or back), no stop at zero
                ops.append({"op": "transact", "path": [i], "q": -2 * held[i], "update": rng.random() < 0.5, "price": None})
                held[i] = -held[i]
            elif held[i] == 0 and r < 0.3:
                q = float(rng.choice([-1, 1]) * rng.randint(5, 40))
                ops.append({"op": "transact", "path": [i], "q": q, "update": True, "price": None})
                held[i] = q
        ops.append({"op": "update", "d": d})
        if rng.random() < 0.3:
            ops.append({"op": "observe", "on": "real"})
    ops.append({"op": "observe", "on": "real"})
    spec["ops"] = ops


def zero_spell_hold(rng, spec):
    """buy-and-hold through a spell of prices that are exactly zero for two or more consecutive dates and then recover, on market-value
    and fixed-income trees (a position worth exactly nothing is still a position)"""
    T = max(spec["T"], 6)
    spec["T"] = T
    for k in ("prices", "bidoffer", "coupons", "cost_long", "cost_short"):
        if spec.get(k):
            for t, col in spec[k].items():
                if len(col) < T:
                    spec[k][t] = list(col) + [col[-1] if col else None] * (T - len(col))
    for t in TICKERS:
        col = spec["prices"][t]
        col = [(10.0 + j) if (x is None or x == 0.0) else x for j, x in enumerate(col)]
        if rng.random() < 0.7:
            k = rng.randint(1, T - 4)
            n = rng.randint(2, 3)
            for j in range(k, min(T - 1, k + n)):
                col[j] = 0.0
        spec["prices"][t] = col
    scripted_hold(rng, spec)
    # trades at a price of exactly zero (quantity-based: a free delivery, a par swap): the outlay is zero, the position is not,
    # and the tree is observed right afterwards, before any explicit update
    secs = [p for p in all_paths(spec["tree"]) if p[1]]
    ops = []
    seen_d = set()
    for op in spec["ops"]:
        ops.append(op)
        if op["op"] == "update" and op["d"] not in seen_d and op["d"] > 0:
            seen_d.add(op["d"])
            zero = [p for p in secs if spec["prices"][p[2]["sec"]][op["d"]] == 0.0]
            if zero and rng.random() < 0.8:
                p = rng.choice(zero)
                ops.append({"op": "transact", "path": p[0], "q": float(rng.randint(1, 9)), "update": True, "price": None})
                ops.append({"op": "observe", "on": "real"})
    spec["ops"] = ops


def custom_price_trades(rng, spec):
    """securities with multipliers other than 1, bid/offer data present, a price-dependent commission, and on every date a mix of
    market trades and trades at a custom price (above / below the market), on a root and inside a sub-strategy"""
    T = max(spec["T"], 4)
    spec["T"] = T
    spec["tree"] = {"name": "root", "fi": False, "algos": False, "kids": [
        {"sec": "a", "kind": 0, "mult": rng.choice([10.0, 100.0, 0.5]), "cfi": True},
        {"sec": "b", "kind": 0, "mult": 1.0, "cfi": True},
        {"name": "s00", "fi": False, "algos": False, "kids": [{"sec": "c", "kind": 0, "mult": rng.choice([10.0, 50.0]), "cfi": True}]}]}
    for k in ("coupons", "cost_long", "cost_short"):
        spec[k] = None
    for t in TICKERS:
        p = float(rng.randint(20, 120))
        spec["prices"][t] = [p + rng.randint(-4, 4) for _ in range(T)]
    spec["bidoffer"] = {t: [rng.choice([0.0, 0.25, 0.5, 1.0])] * T for t in TICKERS}
    spec["comm"] = rng.choice([[3, 0, 0.001], [3, 0, 0.015625], [5, 1.0, 0.001], [5, 2.0, 0.0078125]])
    spec["capital"] = 1000000.0
    ops = [{"op": "adjust", "path": [], "amount": spec["capital"], "update": True, "flow": True}, {"op": "update", "d": 0},
           {"op": "allocate", "path": [2], "amount": 200000.0, "update": True}]
    secs = [([0], "a"), ([1], "b"), ([2, 0], "c")]
    for d in range(T):
        ops.append({"op": "update", "d": d})
        for _ in range(rng.randint(2, 5)):
            path, t = rng.choice(secs)
            q = float(rng.choice([-1, 1]) * rng.randint(1, 30))
            px = None
            if rng.random() < 0.6:
                px = spec["prices"][t][d] + rng.choice([-2.0, -0.5, 0.25, 1.0, 3.0])
            ops.append({"op": "transact", "path": path, "q": q, "update": rng.random() < 0.5, "price": px})
        ops.append({"op": "update", "d": d})
    ops.append({"op": "observe", "on": "real"})
    spec["ops"] = ops


def carry_tree(rng, spec):
    """market-value root holding coupon-paying securities directly (carry parked on the security and swept on the next date),
    plain securities and a sub-strategy; levered so that crashes bankrupt it"""
    T = spec["T"]
    kinds = [2, 2, 4, 0]
    rng.shuffle(kinds)
    kids = []
    for t, k in zip(["a", "b", "c", "d"], kinds[:rng.randint(2, 4)]):
        kids.append({"sec": t, "kind": k, "mult": rng.choice([1.0, 1.0, 10.0]), "cfi": False})
    if rng.random() < 0.4:
        kids.append({"name": "s00", "fi": False, "algos": False, "kids": [{"sec": "e", "kind": 0, "mult": 1.0, "cfi": True}]})
    spec["tree"] = {"name": "root", "fi": False, "algos": False, "kids": kids}
    big = rng.random() < 0.6
    spec["coupons"] = {t: [rng.choice([0.0, 0.5, 2.0, 5.0]) * (3.0 if big else 1.0) for _ in range(T)] for t in TICKERS}
    spec["cost_long"] = {t: [rng.choice([0.0, 0.125]) for _ in range(T)] for t in TICKERS} if rng.random() < 0.5 else None
    spec["cost_short"] = None
    # crash paths
    for t, col in spec["prices"].items():
        p = float(rng.randint(20, 60))
        path = []
        for j in range(T):
            p = max(1.0, p + rng.choice([-12.0, -6.0, -3.0, 1.0, 2.0, -20.0]))
            path.append(p)
        spec["prices"][t] = path
    cap = spec["capital"]
    ops = [{"op": "adjust", "path": [], "amount": cap, "update": True, "flow": True}, {"op": "update", "d": 0}]
    secs = [p for p in all_paths(spec["tree"]) if p[1]]
    lev = rng.choice([1.0, 1.5, 2.0, 3.0])
    for p in secs:
        px = spec["prices"][p[2]["sec"]][0] * p[2]["mult"]
        q = float(int(lev * cap / (len(secs) * px))) or 1.0
        ops.append({"op": "transact", "path": p[0], "q": q, "update": rng.random() < 0.5, "price": None})
    ops.append({"op": "update", "d": 0})
    for d in range(1, T):
        ops.append({"op": "update", "d": d})
        if rng.random() < 0.3:
            ops.append({"op": "update", "d": d})
        if rng.random() < 0.3:
            ops.append({"op": "observe", "on": "real"})
    spec["ops"] = ops


def unclosed_trades(rng, spec):
    """dates on which capital is injected and consumed by an update, and a TRADE afterwards leaves the tree stale when the clock
    moves (no closing update, no read): what was injected on a date is a flow of that date only"""
    T = spec["T"]
    secs = [p for p in all_paths(spec["tree"]) if p[1]]
    cap = spec["capital"]
    ops = [{"op": "adjust", "path": [], "amount": cap, "update": True, "flow": True}, {"op": "update", "d": 0}]
    for d in range(1, T):
        ops.append({"op": "update", "d": d})
        if rng.random() < 0.6:
            ops.append({"op": "adjust", "path": [], "amount": float(rng.choice([0.05, 0.1, -0.03, 0.2])) * cap, "update": True, "flow": rng.random() < 0.8})
            ops.append({"op": "update", "d": d})              # the flow is consumed by an update (an injection is always followed by one) ...
        if secs and rng.random() < 0.8:
            p = rng.choice(secs)
            px = spec["prices"][p[2]["sec"]][d]
            if px is not None and px > 0:
                # ... and a trade afterwards marks the tree stale; nothing refreshes it before the next date
                ops.append({"op": "allocate", "path": p[0], "amount": float(rng.choice([0.02, 0.05, -0.01])) * cap, "update": True})
        if rng.random() < 0.3:
            ops.append({"op": "update", "d": d})
    ops.append({"op": "update", "d": T - 1})
    ops.append({"op": "observe", "on": "real"})
    spec["ops"] = ops
