"""Snapshot real bt trees, serialise them for the Lean driver, execute operations on the
real objects, parse the driver's answer and compare (DESIGN 4.3-4.5)."""
import math
import struct

import numpy as np


def f2b(x):
    return struct.unpack("<Q", struct.pack("<d", float(x)))[0]


def b2f(n):
    return struct.unpack("<d", struct.pack("<Q", int(n)))[0]


def isnan(x):
    try:
        return math.isnan(x)
    except TypeError:
        return False


# ---------------------------------------------------------------- commissions
def make_comm(kind, m=0.0, k=0.0):
    m = float(m)
    k = float(k)
    if kind == 0:
        fn = lambda q, p: 0.0
    elif kind == 1:
        fn = lambda q, p: m
    elif kind == 2:
        fn = lambda q, p: k * abs(q)
    elif kind == 3:
        fn = lambda q, p: k * abs(q) * p
    elif kind == 4:
        def fn(q, p):
            a = k * abs(q)
            return a if m < a else m
    else:
        def fn(q, p):
            a = k * abs(q) * p
            return a if m < a else m
    fn._vdesc = (kind, m, k)
    return fn


def comm_desc(fn):
    d = getattr(fn, "_vdesc", None)
    if d is not None:
        return d
    if getattr(fn, "__name__", "") == "_dflt_comm_fn":
        return (0, 0.0, 0.0)
    return None


# ---------------------------------------------------------------- snapshot
def sec_kind(bt, n):
    c = bt.core
    t = type(n)
    if issubclass(t, c.CouponPayingHedgeSecurity):
        return 4
    if issubclass(t, c.HedgeSecurity):
        return 3
    if issubclass(t, c.CouponPayingSecurity):
        return 2
    if issubclass(t, c.FixedIncomeSecurity):
        return 1
    return 0


def _idx(node):
    now = node.now
    if isinstance(now, int) and now == 0:
        return None
    return int(node.data.index.get_loc(now))


def _col(series):
    return [None if isnan(v) else float(v) for v in np.asarray(series.values, dtype=float)]


def snap_node(bt, n):
    c = bt.core
    if isinstance(n, c.SecurityBase):
        kind = sec_kind(bt, n)
        bset = bool(n._bidoffer_set)
        d = {
            "t": "S", "name": n.name, "kind": kind, "fixedIncome": bool(n._fixed_income),
            "integer": bool(n.integer_positions), "bidofferSet": bset, "mult": float(n.multiplier),
            "now": _idx(n), "price": None if isnan(n._price) else float(n._price),
            "value": float(n._value), "notl": float(n._notl_value), "weight": float(n._weight),
            "position": float(n._position), "lastPos": float(n._last_pos), "outlayAcc": float(n._outlay),
            "bidoffer": None if isnan(n._bidoffer) else float(n._bidoffer),
            "bidofferPaid": float(n._bidoffer_paid), "capital": float(n._capital),
            "coupon": float(getattr(n, "_coupon", 0.0)), "holdingCost": float(getattr(n, "_holding_cost", 0.0)),
            "needupdate": bool(n._needupdate),
            "prices": _col(n._prices),
            "bidoffers": _col(n._bidoffers) if bset else [],
            "coupons": _col(n._coupons) if kind in (2, 4) else [],
            "costLong": (_col(n._cost_long) if getattr(n, "_cost_long", None) is not None else None) if kind in (2, 4) else None,
            "costShort": (_col(n._cost_short) if getattr(n, "_cost_short", None) is not None else None) if kind in (2, 4) else None,
            "rValue": [float(v) for v in n._values.values], "rPosition": [float(v) for v in n._positions.values],
            "rNotl": [float(v) for v in n._notl_values.values], "rOutlay": [float(v) for v in n._outlays.values],
            "rBidofferPaid": [float(v) for v in n._bidoffers_paid.values] if bset else [],
            "rCoupon": [float(v) for v in n._coupon_income.values] if kind in (2, 4) else [],
            "rHolding": [float(v) for v in n._holding_costs.values] if kind in (2, 4) else [],
        }
        return d
    bset = bool(n._bidoffer_set)
    cd = comm_desc(n.commission_fn)
    d = {
        "t": "T", "name": n.name, "fixedIncome": bool(n._fixed_income), "bidofferSet": bset,
        "paperTrade": bool(n._paper_trade), "paperPx": float(n._price), "comm": cd,
        "now": _idx(n), "capital": float(n._capital), "price": float(n._price), "value": float(n._value),
        "notl": float(n._notl_value), "weight": float(n._weight), "netFlows": float(n._net_flows),
        "lastValue": float(n._last_value), "lastNotl": float(n._last_notl_value),
        "lastPrice": float(n._last_price), "lastFee": float(n._last_fee),
        "bidofferPaid": float(n._bidoffer_paid), "bankrupt": bool(n.bankrupt),
        "rPrice": [float(v) for v in n._prices.values], "rValue": [float(v) for v in n._values.values],
        "rNotl": [float(v) for v in n._notl_values.values], "rCash": [float(v) for v in n._cash.values],
        "rFees": [float(v) for v in n._fees.values], "rFlows": [float(v) for v in n._all_flows.values],
        "rBidofferPaid": [float(v) for v in n._bidoffers_paid.values] if bset else [],
        "kids": [snap_node(bt, k) for k in n._childrenv],
    }
    return d


def snap_world(bt, root):
    return {"stale": bool(root.stale), "root": snap_node(bt, root)}


def fill_paper(pre, post):
    """paperPx of the pre-state := price the node has after the step (external input of the model)."""
    if pre["t"] == "T" and post["t"] == "T":
        pre["paperPx"] = post["price"]
        for a, b in zip(pre["kids"], post["kids"]):
            fill_paper(a, b)


# ---------------------------------------------------------------- serialise
def tF(x):
    return str(f2b(x))


def tO(x, f=tF):
    return "N" if x is None else f(x)


def tB(b):
    return "1" if b else "0"


def tL(l, f):
    out = [str(len(l))]
    for x in l:
        out.append(f(x))
    return " ".join(out)


def tName(s):
    return "".join(ch if (ch.isalnum() or ch in "_-.>") else "_" for ch in s) or "_"


SEC_F = ["value", "notl", "weight", "position", "lastPos", "outlayAcc"]
SEC_ROWS = ["rValue", "rPosition", "rNotl", "rOutlay", "rBidofferPaid", "rCoupon", "rHolding"]
STRAT_F = ["capital", "price", "value", "notl", "weight", "netFlows", "lastValue", "lastNotl", "lastPrice", "lastFee", "bidofferPaid"]
STRAT_ROWS = ["rPrice", "rValue", "rNotl", "rCash", "rFees", "rFlows", "rBidofferPaid"]


def ser_node(n):
    if n["t"] == "S":
        t = ["S", tName(n["name"]), str(n["kind"]), tB(n["fixedIncome"]), tB(n["integer"]), tB(n["bidofferSet"]),
             tF(n["mult"]), tO(n["now"], str), tO(n["price"])]
        t += [tF(n[k]) for k in SEC_F]
        t += [tO(n["bidoffer"]), tF(n["bidofferPaid"]), tF(n["capital"]), tF(n["coupon"]), tF(n["holdingCost"]), tB(n["needupdate"])]
        t += [tL(n["prices"], tO), tL(n["bidoffers"], tO), tL(n["coupons"], tO)]
        t += ["N" if n["costLong"] is None else tL(n["costLong"], tO), "N" if n["costShort"] is None else tL(n["costShort"], tO)]
        t += [tL(n[k], tF) for k in SEC_ROWS]
        return " ".join(t)
    kind, m, k = n["comm"]
    t = ["T", tName(n["name"]), tB(n["fixedIncome"]), tB(n["bidofferSet"]), tB(n["paperTrade"]), tF(n["paperPx"]),
         str(kind), tF(m), tF(k), tO(n["now"], str)]
    t += [tF(n[k2]) for k2 in STRAT_F]
    t += [tB(n["bankrupt"])]
    t += [tL(n[k2], tF) for k2 in STRAT_ROWS]
    t += [str(len(n["kids"]))] + [ser_node(c) for c in n["kids"]]
    return " ".join(t)


def ser_world(w):
    return tB(w["stale"]) + " " + ser_node(w["root"])


def ser_cfg(cfg):
    return " ".join([tF(cfg["tol"]), tF(cfg["par"]), tF(cfg["atol"]), tF(cfg["half"]), str(cfg["iterCap"])])


def live_cfg(bt):
    return {"tol": float(bt.core.TOL), "par": float(bt.core.PAR), "atol": 1e-8, "half": 0.5, "iterCap": 10000}


def ser_path(p):
    return tL(p, str)


def ser_op(op):
    k = op["op"]
    if k == "update":
        return "update %d" % op["d"]
    if k == "adjust":
        return "adjust %s %s %s %s" % (ser_path(op["path"]), tF(op["amount"]), tB(op["update"]), tB(op["flow"]))
    if k == "allocate":
        return "allocate %s %s %s" % (ser_path(op["path"]), tF(op["amount"]), tB(op["update"]))
    if k == "transact":
        return "transact %s %s %s %s" % (ser_path(op["path"]), tF(op["q"]), tB(op["update"]), tO(op.get("price")))
    if k == "flatten":
        return "flatten %s" % ser_path(op["path"])
    if k == "close":
        return "close %s %d %s" % (ser_path(op["path"]), op["child"], tB(op["update"]))
    if k == "rebalance":
        return "rebalance %s %s %d %s %s" % (ser_path(op["path"]), tF(op["weight"]), op["child"], tO(op.get("base")), tB(op["update"]))
    if k == "read":
        return "read %s %d" % (ser_path(op["path"]), op["g"])
    if k in ("btday", "paperday"):
        return "%s %d %s%s" % (k, op["d"], tB(op["ran"]), (" " + ser_world(op["w2"])) if op["ran"] else "")
    raise ValueError(k)


def step_line(cfg, pre, op):
    return "step %s %s %s" % (ser_cfg(cfg), ser_world(pre), ser_op(op))


# ---------------------------------------------------------------- parse driver answer
class _Toks:
    def __init__(self, s):
        self.t = s.split(" ")
        self.i = 0

    def next(self):
        v = self.t[self.i]
        self.i += 1
        return v

    def peek(self):
        return self.t[self.i]

    def nat(self):
        return int(self.next())

    def flt(self):
        return b2f(self.next())

    def opt(self, f):
        if self.peek() == "N":
            self.i += 1
            return None
        return f()

    def lst(self, f):
        return [f() for _ in range(self.nat())]

    def boo(self):
        return self.next() == "1"


def parse_node(t):
    tag = t.next()
    if tag == "S":
        n = {"t": "S", "name": t.next(), "kind": t.nat(), "fixedIncome": t.boo(), "integer": t.boo(), "bidofferSet": t.boo(),
             "mult": t.flt(), "now": t.opt(t.nat), "price": t.opt(t.flt)}
        for k in SEC_F:
            n[k] = t.flt()
        n["bidoffer"] = t.opt(t.flt)
        n["bidofferPaid"] = t.flt()
        n["capital"] = t.flt()
        n["coupon"] = t.flt()
        n["holdingCost"] = t.flt()
        n["needupdate"] = t.boo()
        for k in SEC_ROWS:
            n[k] = t.lst(t.flt)
        return n
    n = {"t": "T", "name": t.next(), "now": t.opt(t.nat)}
    for k in STRAT_F:
        n[k] = t.flt()
    n["bankrupt"] = t.boo()
    for k in STRAT_ROWS:
        n[k] = t.lst(t.flt)
    n["kids"] = [parse_node(t) for _ in range(t.nat())]
    return n


def parse_answer(line):
    if line.startswith("err "):
        return ("err", line[4:].strip())
    if line.startswith("ok "):
        t = _Toks(line[3:])
        stale = t.boo()
        root = parse_node(t)
        return ("ok", {"stale": stale, "root": root})
    return ("bad", line)


# ---------------------------------------------------------------- compare
def close_enough(a, b):
    if a == b:
        return True
    if isnan(a) and isnan(b):
        return True
    return abs(a - b) <= 1e-9 * max(1.0, abs(a), abs(b))


class Cmp:
    def __init__(self):
        self.diffs = []
        self.nfloat = 0
        self.nbit = 0

    def f(self, where, field, a, b):
        self.nfloat += 1
        if f2b(a) == f2b(b) or (a == 0.0 and b == 0.0):
            self.nbit += 1
            return
        if not close_enough(a, b):
            self.diffs.append({"where": where, "field": field, "real": a, "model": b})

    def d(self, where, field, a, b):
        if a != b:
            self.diffs.append({"where": where, "field": field, "real": a, "model": b})

    def o(self, where, field, a, b):
        if a is None or b is None:
            self.d(where, field, a, b)
        else:
            self.f(where, field, a, b)

    def rows(self, where, field, a, b):
        if len(a) != len(b):
            self.diffs.append({"where": where, "field": field + ".len", "real": len(a), "model": len(b)})
            return
        for i, (x, y) in enumerate(zip(a, b)):
            self.f(where, "%s[%d]" % (field, i), x, y)


def cmp_node(c, real, model, where=""):
    w = where + "/" + real["name"]
    if real["t"] != model["t"]:
        c.d(w, "kind", real["t"], model["t"])
        return
    if real["t"] == "S":
        c.d(w, "now", real["now"], model["now"])
        c.o(w, "price", real["price"], model["price"])
        for k in SEC_F + ["bidofferPaid", "capital", "coupon", "holdingCost"]:
            c.f(w, k, real[k], model[k])
        c.o(w, "bidoffer", real["bidoffer"], model["bidoffer"])
        c.d(w, "needupdate", real["needupdate"], model["needupdate"])
        for k in SEC_ROWS:
            c.rows(w, k, real[k], model[k])
        return
    c.d(w, "now", real["now"], model["now"])
    for k in STRAT_F:
        c.f(w, k, real[k], model[k])
    c.d(w, "bankrupt", real["bankrupt"], model["bankrupt"])
    for k in STRAT_ROWS:
        c.rows(w, k, real[k], model[k])
    if len(real["kids"]) != len(model["kids"]):
        c.d(w, "nkids", len(real["kids"]), len(model["kids"]))
        return
    for a, b in zip(real["kids"], model["kids"]):
        cmp_node(c, a, b, w)


def cmp_world(real, model):
    c = Cmp()
    c.d("", "stale", real["stale"], model["stale"])
    cmp_node(c, real["root"], model["root"])
    return c


# ---------------------------------------------------------------- execute on the real tree
def node_at(root, path):
    n = root
    for i in path:
        n = n._childrenv[i]
    return n


GETTERS = {
    0: ["value", "weight", "notional_value", "price", "prices", "values", "fees", "flows", "notional_values", "cash"],
    4: ["positions", "outlays"],
    1: ["price", "bidoffer", "bidoffer_paid", "prices"],
    2: ["values", "positions", "outlays", "notional_values"],
    3: ["capital"],
}


def in_paper(e):
    """did the exception come out of a shadow ("paper") copy's run()? (outside the engine step model)"""
    import traceback
    for fr in traceback.extract_tb(e.__traceback__):
        if fr.line and "self._paper." in fr.line:
            return True
    return False


def classify_exc(e):
    s = str(e)
    if in_paper(e):
        return "PaperRun:" + type(e).__name__
    if "latest price is NaN" in s:
        return "NanPriceOpenPosition"
    if "latest coupon is NaN" in s:
        return "NanCouponOpenPosition"
    if "Cannot allocate capital to" in s and "because price" in s:
        return "AllocateBadPrice"
    if "parentless" in s:
        return "ParentlessSecurity"
    if isinstance(e, ZeroDivisionError) and "Could not update" in s:
        return "ZeroBaseReturn"
    if "Potentially infinite loop" in s:
        return "SizingIterCap"
    if "root search for quantity is stuck" in s:
        return "SizingStuck"
    if "has gotten bigger" in s:
        return "SizingDiverged"
    if "Cannot transact at custom prices" in s:
        return "CustomPriceNoBidOffer"
    if isinstance(e, AttributeError) and "position" in s:
        return "NoPosition"
    return "Other:" + type(e).__name__


def exec_op(bt, root, dates, op):
    k = op["op"]
    if k == "update":
        root.update(dates[op["d"]])
        return
    n = node_at(root, op["path"])
    if k == "adjust":
        n.adjust(op["amount"], update=op["update"], flow=op["flow"])
    elif k == "allocate":
        n.allocate(op["amount"], update=op["update"])
    elif k == "transact":
        if isinstance(n, bt.core.SecurityBase):
            n.transact(op["q"], update=op["update"], price=op.get("price"))
        else:
            n.transact(op["q"], update=op["update"])
    elif k == "flatten":
        n.flatten()
    elif k == "close":
        n.close(n._childrenv[op["child"]].name, update=op["update"])
    elif k == "rebalance":
        b = op.get("base")
        n.rebalance(op["weight"], n._childrenv[op["child"]].name, base=(np.nan if b is None else b), update=op["update"])
    elif k == "read":
        getattr(n, op["attr"])
    else:
        raise ValueError(k)


def has_nan_state(w):
    def rec(n):
        for k, v in n.items():
            if isinstance(v, float) and isnan(v):
                return True
            if k.startswith("r") and isinstance(v, list) and any(isinstance(x, float) and isnan(x) for x in v):
                return True
        return any(rec(c) for c in n.get("kids", []))
    return rec(w["root"])
