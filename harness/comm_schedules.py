"""C07, clause "the commission function evaluated at (q, p x multiplier) as fee, charged once, to the security's own parent",
read together with the anchored mechanism "commission function inherited by sub-strategies".

Histories on nested trees (two or three strategy levels, multipliers) in which set_commissions is called at different nodes at
different times (the top; a sub-strategy; the top again with the SAME function object; the top with another function; a child
attached after the first call) interleaved with trades at every level. The schedule in force for a strategy node is kept on the
harness side from the calls alone: the function most recently set on the node or on any of its ancestors, whichever call came last
(a node starts with the free default; a node attached later is not judged until a call made after its attachment reaches it - what
it carries before that is the recorded C19 design decision). Every executed trade (the harness' own view: q, execution price x
multiplier, the parent's fee accumulator and cash before / after) must be charged that function's value, and the node's recorded
fees row of the date must be the sum over its own securities' trades.

Two drivers: the engine driven directly (setup / update / events / closing update) and a bt.Backtest whose root stack is one algo
executing the day's events (sub-strategies may carry their own rebalancing stacks, so their shadow copies trade as well)."""
import pandas as pd

from . import engine as E
from . import gen_runs as R

FUNC_POOL = [[3, 0, 0.001], [5, 2.0, 0.001], [2, 0, 0.0078125], [1, 1.5, 0], [3, 0, 0.00025], [5, 0.5, 0.002], [2, 0, 0.05], [0, 0, 0]]
PATTERNS = ["reimpose-after-sub-override", "reimpose-after-late-attach", "switch-at-top", "mid-level", "random"]


# ------------------------------------------------------------------ generation
def _strat_paths(tree, pre=()):
    p = pre + (tree["name"],)
    out = [list(p)]
    for s in tree["subs"]:
        out.extend(_strat_paths(s, p))
    return out


def _sec_paths(tree, pre=()):
    p = pre + (tree["name"],)
    out = [list(p) + [s[0]] for s in tree["secs"]]
    for s in tree["subs"]:
        out.extend(_sec_paths(s, p))
    return out


def gen_spec(rng, pattern=None, driver=None):
    pattern = pattern or rng.choice(PATTERNS)
    driver = driver or rng.choice(["engine", "backtest"])
    T = rng.randint(6, 9)
    dates, _ = R.gen_index(rng, T, rng.choice(["D", "B", "W"]))
    tickers = ["aa", "bb", "cc", "dd", "ee", "ff"]
    prices = {}
    for t in tickers:
        p = float(rng.choice([10, 25, 50, 100, 7.5]))
        col = []
        for _ in range(T):
            col.append(round(p, 4))
            p = max(1.0, p * (1.0 + rng.uniform(-0.04, 0.05)))
        prices[t] = col
    mult = lambda: rng.choice([1, 1, 1, 10, 0.5, 2])
    depth3 = pattern == "mid-level" or rng.random() < 0.4
    leaf = {"name": "leaf", "secs": [["ee", mult()], ["ff", mult()]], "subs": []}
    s1 = {"name": "s1", "secs": [["aa", mult()], ["bb", mult()]], "subs": [leaf] if depth3 else []}
    subs = [s1]
    if rng.random() < 0.6:
        subs.append({"name": "s2", "secs": [["cc", mult()]], "subs": []})
    tree = {"name": "top", "secs": [["dd", mult()]], "subs": subs}
    nf = 3
    funcs = rng.sample(FUNC_POOL[:-1], nf) if rng.random() < 0.8 else rng.sample(FUNC_POOL, nf)
    capital = float(rng.choice([1000000, 250000]))
    integer = rng.random() < 0.5
    spaths = _strat_paths(tree)
    sub_paths = [p for p in spaths if len(p) > 1]

    # the calls, by date index
    calls = []          # (date index, event)
    initial = None
    d_a = rng.randint(1, T - 4)
    d_b = rng.randint(d_a + 1, T - 2)
    F, G, H = 0, 1, 2
    late = None
    if pattern == "reimpose-after-sub-override":
        if rng.random() < 0.5:
            initial = F
        else:
            calls.append((0, ["setc", ["top"], F]))
        calls.append((d_a, ["setc", rng.choice(sub_paths), G]))
        calls.append((d_b, ["setc", ["top"], F]))
    elif pattern == "reimpose-after-late-attach":
        initial = F if rng.random() < 0.6 else None
        if initial is None:
            calls.append((0, ["setc", ["top"], F]))
        par = rng.choice(spaths)
        late = {"date": d_a, "parent": par, "name": "late", "secs": [["cc", mult()], ["dd", mult()]]}
        # (at the top, or at the new child's parent - which holds F through the top's call)
        calls.append((d_b, ["setc", ["top"] if rng.random() < 0.7 else par, F]))
    elif pattern == "switch-at-top":
        initial = F if rng.random() < 0.5 else None
        if initial is None:
            calls.append((0, ["setc", ["top"], F]))
        calls.append((d_a, ["setc", ["top"], H]))
        if rng.random() < 0.5:
            calls.append((d_b, ["setc", ["top"], F]))
    elif pattern == "mid-level":
        calls.append((0, ["setc", ["top"], F]))
        calls.append((d_a, ["setc", ["top", "s1"], G]))
        calls.append((d_a if rng.random() < 0.5 else d_a + 1, ["setc", ["top", "s1", "leaf"], H]))
        calls.append((d_b, ["setc", ["top", "s1"], G]))
        if d_b + 1 < T and rng.random() < 0.6:
            calls.append((d_b + 1, ["setc", ["top"], F]))
    else:
        initial = rng.choice([None, F, G])
        for d in range(T):
            while rng.random() < 0.45:
                calls.append((d, ["setc", rng.choice(spaths), rng.randrange(nf)]))
        if rng.random() < 0.4:
            late = {"date": d_a, "parent": rng.choice(spaths), "name": "late", "secs": [["cc", mult()]]}

    events = []
    live_secs = _sec_paths(tree)
    live_subs = list(sub_paths)
    for d in range(T):
        day = []
        if d == 0:
            for p in sub_paths:           # parents first
                day.append(["fund", p, round(capital * (0.3 if len(p) == 2 else 0.1), 2)])
        if late is not None and late["date"] == d:
            day.append(["attach", late["parent"], late["name"], late["secs"]])
            lp = late["parent"] + [late["name"]]
            day.append(["fund", lp, round(capital * 0.05, 2)])
            live_subs.append(lp)
            live_secs.extend(lp + [s[0]] for s in late["secs"])
        todays = [c for dd, c in calls if dd == d]
        # the day's trades: before, between and after the day's calls
        slots = [[] for _ in range(len(todays) + 1)]
        for sp in live_secs:
            if rng.random() < 0.75:
                k = rng.randrange(len(slots))
                r = rng.random()
                if r < 0.5:
                    q = rng.choice([5, 12, 40, -7, 100, -30, 3]) if integer else rng.choice([5.5, 12.25, -7.125, 40, 0.75, -30])
                    slots[k].append(["transact", sp, q])
                elif r < 0.8:
                    slots[k].append(["alloc", sp, float(rng.choice([1500, 4000, -1200, 9000, 650.5]))])
                else:
                    slots[k].append(["reb", sp[:-1], sp[-1], rng.choice([0.1, 0.2, 0.05, 0.3, 0.0])])
        if d > 0 and live_subs and rng.random() < 0.35:
            slots[rng.randrange(len(slots))].append(["fund", rng.choice(live_subs), float(rng.choice([5000, -3000, 20000]))])
        for k, sl in enumerate(slots):
            day.extend(sl)
            if k < len(todays):
                day.append(todays[k])
        events.append(day)

    spec = {"mode": "schedule", "pattern": pattern, "driver": driver, "dates": dates, "prices": prices, "tree": tree, "funcs": funcs,
            "capital": capital, "integer": integer, "initial": initial, "events": events, "substacks": {}}
    if driver == "backtest" and rng.random() < 0.5:
        # sub-strategies rebalancing by themselves every day to a moving target (their shadow copies trade too)
        for p in sub_paths:
            node = tree
            for nm in p[1:]:
                node = next(s for s in node["subs"] if s["name"] == nm)
            tks = [s[0] for s in node["secs"]] + [s["name"] for s in node["subs"]]
            w = []
            for _ in range(T):
                a = rng.choice([0.2, 0.35, 0.5, 0.6])
                w.append([a] + [round((0.9 - a) / max(1, len(tks) - 1), 4)] * (len(tks) - 1))
            spec["substacks"]["/".join(p)] = {"tickers": tks, "weights": w}
    return spec


# ------------------------------------------------------------------ execution
def _build_tree(bt, spec, tree, path, top_stack):
    p = path + [tree["name"]]
    kids = [bt.Security(nm, multiplier=m) for nm, m in tree["secs"]]
    kids += [_build_tree(bt, spec, s, p, None) for s in tree["subs"]]
    if top_stack is not None:
        stack = top_stack
    else:
        ss = spec["substacks"].get("/".join(p))
        if ss:
            tw = pd.DataFrame(ss["weights"], index=pd.DatetimeIndex(spec["dates"]), columns=ss["tickers"])
            stack = [bt.algos.SelectThese(ss["tickers"]), bt.algos.WeighTarget(tw), bt.algos.Rebalance()]
        else:
            stack = []
    return bt.Strategy(tree["name"], stack, children=kids)


class Oracle:
    """the schedule in force per strategy node, kept from the calls alone"""
    DEFAULT = "default"

    def __init__(self, spec):
        self.force = {}
        for p in _strat_paths(spec["tree"]):
            self.force[tuple(p)] = self.DEFAULT if spec["initial"] is None else spec["initial"]

    def setc(self, path, fid):
        path = tuple(path)
        for p in list(self.force):
            if p[:len(path)] == path:
                self.force[p] = fid

    def attach(self, path):
        self.force[tuple(path)] = None      # not judged until a later call reaches it

    def of_full_name(self, full_name):
        return self.force.get(tuple(full_name.split(">")), None)


class Executor:
    def __init__(self, bt, spec, funcs, log, ctx):
        self.bt = bt
        self.spec = spec
        self.funcs = funcs
        self.log = log
        self.ctx = ctx
        self.oracle = Oracle(spec)
        self.mark = 0
        self.raised = None
        self.event_raised = False

    def tag(self):
        # trades executed since the last call carry the schedule that was in force when they were made
        for t in self.log[self.mark:]:
            t["want_fid"] = self.oracle.of_full_name(t["parent"])
        self.mark = len(self.log)

    @staticmethod
    def node(top, path):
        n = top
        for nm in path[1:]:
            n = n[nm]
        return n

    def day(self, top, d):
        bt = self.bt
        for ev in self.spec["events"][d]:
            k = ev[0]
            try:
                if k == "setc":
                    self.tag()
                    self.node(top, ev[1]).set_commissions(self.funcs[ev[2]])
                    self.oracle.setc(ev[1], ev[2])
                    self.ctx.count("schedule:set_commissions-calls")
                elif k == "attach":
                    self.tag()
                    par = self.node(top, ev[1])
                    kids = [bt.Security(nm, multiplier=m) for nm, m in ev[3]]
                    kid = bt.Strategy(ev[2], [], children=kids, parent=par)
                    kid.setup_from_parent()
                    kid.update(par.now)
                    self.oracle.attach(ev[1] + [ev[2]])
                    self.ctx.count("schedule:late-attached-children")
                elif k == "fund":
                    self.node(top, ev[1]).allocate(ev[2])
                elif k == "transact":
                    self.node(top, ev[1]).transact(ev[2])
                elif k == "alloc":
                    self.node(top, ev[1]).allocate(ev[2])
                elif k == "reb":
                    self.node(top, ev[1]).rebalance(ev[3], ev[2])
            except Exception as e:  # noqa  (sizing search on minimum-fee schedules, bankrupt nodes ...: other properties' subject)
                self.ctx.count("schedule:event-raised:" + E.classify_exc(e))
                self.event_raised = True
                if k in ("setc", "attach"):
                    self.raised = e
                    raise
        self.tag()


def run_case(ctx, bt, spec):
    funcs = [E.make_comm(*f) for f in spec["funcs"]]
    dates = spec["dates"]
    data = R.frame(spec["prices"], dates)
    raised = None
    with R.trade_log(bt) as log:
        ex = Executor(bt, spec, funcs, log, ctx)
        if spec["driver"] == "engine":
            top = _build_tree(bt, spec, spec["tree"], [], [])
            if spec["initial"] is not None:
                top.set_commissions(funcs[spec["initial"]])
            top.use_integer_positions(spec["integer"])
            try:
                top.setup(data)
                for d, dt in enumerate(data.index):
                    top.update(dt)
                    if d == 0:
                        top.adjust(spec["capital"])
                    ex.day(top, d)
                    top.update(dt)          # the closing update of the date
            except Exception as e:  # noqa
                raised = e
        else:
            idx = {dt: d for d, dt in enumerate(data.index)}

            class Events(bt.Algo):
                def __call__(self, target):
                    d = idx.get(target.now)
                    if d is not None:
                        ex.day(target, d)
                    return True

            s = _build_tree(bt, spec, spec["tree"], [], [Events()])
            kw = {}
            if spec["initial"] is not None:
                kw["commissions"] = funcs[spec["initial"]]
            try:
                b = bt.Backtest(s, data, initial_capital=spec["capital"], integer_positions=spec["integer"], progress_bar=False, **kw)
                b.run()
                top = b.strategy
            except Exception as e:  # noqa
                raised = e
                top = None
        ex.tag()
        trades = list(log)
    if raised is not None:
        ctx.count("schedule:run-raised:" + E.classify_exc(raised))
    ctx.count("schedule:cases:" + spec["pattern"] + ":" + spec["driver"])
    ctx.classes.add(("schedule", spec["pattern"], spec["driver"], len(_strat_paths(spec["tree"])), spec["integer"], bool(spec["substacks"])))
    rd = {"spec": spec, "mode": "schedule"}

    # trade by trade
    top_id = id(top) if top is not None else None
    sums = {}
    unjudged = set()
    for t in trades:
        if top_id is None or t["paper"] != top_id:
            continue                       # a shadow copy's trade: its fees move an index, no node's cash
        key = (t["parent"], t["now"])
        if t["after"][0] == t["before"][0]:
            continue                       # nothing was traded: a zero quantity is not charged
        px = float(t["custom"] if t["custom"] is not None else t["price"])
        fid = t.get("want_fid")
        if fid is None or px != px or any(x != x for x in t["before"]) or any(x != x for x in t["after"]):
            unjudged.add(key)
            ctx.count("schedule:trades-not-judged")
            continue
        want = 0.0 if fid == Oracle.DEFAULT else float(funcs[fid](t["q"], px * t["mult"]))
        got = float(t["after"][2] - t["before"][2])
        sums[key] = sums.get(key, 0.0) + want
        ctx.count("schedule:trades-checked")
        ctx.count("schedule:trades-checked:depth%d" % t["parent"].count(">"))
        tol = 1e-9 * max(1.0, abs(want), abs(t["after"][2]))
        if abs(got - want) > tol:
            ctx.violation("C07/fee-not-the-schedule-in-force",
                          "%s on %s: trade of %r at %r x %r was charged %r on %s; the commission function in force there (last set_commissions "
                          "call on the node or an ancestor: function #%s %r) gives %r [%s, %s]"
                          % (t["sec"], t["now"], t["q"], px, t["mult"], got, t["parent"], fid,
                             None if fid == Oracle.DEFAULT else spec["funcs"][fid], want, spec["pattern"], spec["driver"]), rd)
            return
        # charged: the parent's cash moved by the outlay booked for the trade and that fee, in one go
        d_out = t["after"][4] - t["before"][4]
        d_cap = t["after"][1] - t["before"][1]
        if abs(d_cap + d_out + want) > 1e-9 * max(1.0, abs(d_out), abs(want), abs(t["after"][1]), abs(t["before"][1])):
            ctx.violation("C07/fee-not-taken-from-cash",
                          "%s on %s: trade of %r at %r x %r: parent %s cash moved by %r, outlay booked %r + fee of the schedule in force %r"
                          % (t["sec"], t["now"], t["q"], px, t["mult"], t["parent"], d_cap, d_out, want), rd)
            return

    # the recorded fees row of every node and date = the sum over that date's trades of its own securities
    if raised is None and top is not None and not ex.event_raised:
        for n in top.members:
            if not isinstance(n, bt.core.StrategyBase):
                continue
            fees = n.fees
            for dt in data.index:
                key = (n.full_name, dt)
                if key in unjudged or dt not in fees.index:
                    continue
                got = float(fees.loc[dt])
                want = sums.get(key, 0.0)
                ctx.count("schedule:fee-rows-checked")
                if got != got or abs(got - want) > 1e-9 * max(1.0, abs(want)):
                    ctx.violation("C07/fees-row-not-the-schedule-in-force",
                                  "%s %s: recorded fees %r; the schedules in force on that date's trades of its own securities give %r [%s, %s]"
                                  % (n.full_name, dt.date(), got, want, spec["pattern"], spec["driver"]), rd)
                    return


def run_family(ctx, bt, n):
    for i in range(n):
        pattern = PATTERNS[i % len(PATTERNS)]
        driver = ["engine", "backtest"][(i // len(PATTERNS)) % 2]
        spec = gen_spec(ctx.rng, pattern, driver)
        ctx.evaluations += 1
        run_case(ctx, bt, spec)
