"""Record the outermost public engine operations performed on a live tree (by algos, by Backtest.run) as
(pre-state, operation, post-state) steps for the Lean `step` protocol.  Everything is wrapped from outside, on the
classes of the scratch copy of bt; only calls on nodes of the given top tree at call depth 0 are recorded."""
import contextlib

import numpy as np

from . import engine as E


def path_of(node):
    p = []
    while node.parent is not node:
        p.append(node.parent._childrenv.index(node))
        node = node.parent
    return list(reversed(p))


@contextlib.contextmanager
def record_steps(bt, top, steps, limit=400):
    c = bt.core
    depth = [0]
    saved = []

    def mine(node):
        try:
            return node.root is top and depth[0] == 0 and len(steps) < limit
        except Exception:
            return False

    def wrap(cls, name, make_op):
        orig = getattr(cls, name)

        def w(self, *a, **kw):
            if not mine(self):
                depth[0] += 1
                try:
                    return orig(self, *a, **kw)
                finally:
                    depth[0] -= 1
            try:
                op = make_op(self, *a, **kw)
            except Exception:
                op = None
            if op is None:
                depth[0] += 1
                try:
                    return orig(self, *a, **kw)
                finally:
                    depth[0] -= 1
            pre = E.snap_world(bt, top)
            depth[0] += 1
            try:
                r = orig(self, *a, **kw)
            except Exception as e:  # noqa
                steps.append({"pre": pre, "op": op, "err": E.classify_exc(e), "msg": str(e)[:200]})
                raise
            finally:
                depth[0] -= 1
            post = E.snap_world(bt, top)
            E.fill_paper(pre["root"], post["root"])
            steps.append({"pre": pre, "op": op, "post": post})
            return r

        setattr(cls, name, w)
        saved.append((cls, name, orig))

    def idx_of_date(node, date):
        if isinstance(date, int) and date == 0:
            return None
        return int(top.data.index.get_loc(date))

    def ensure_child(s, child):
        if child is not None and child not in s.children:
            s._create_child_if_needed(child)   # what the operation itself does first; done before the snapshot

    def op_update(s, date, data=None, inow=None):
        if s is not top or data is not None:
            return None
        d = idx_of_date(s, date)
        return None if d is None else {"op": "update", "d": d}

    def op_adjust(s, amount, update=True, flow=True, fee=0.0):
        if fee:
            return None
        return {"op": "adjust", "path": path_of(s), "amount": float(amount), "update": bool(update), "flow": bool(flow)}

    def op_allocate(s, amount, child=None, update=True):
        if child is not None:
            ensure_child(s, child)
            return {"op": "allocate", "path": path_of(s.children[child]), "amount": float(amount), "update": True}
        return {"op": "allocate", "path": path_of(s), "amount": float(amount), "update": bool(update)}

    def op_transact(s, q, child=None, update=True):
        if child is not None:
            ensure_child(s, child)
            return {"op": "transact", "path": path_of(s.children[child]), "q": float(q), "update": True, "price": None}
        return {"op": "transact", "path": path_of(s), "q": float(q), "update": bool(update), "price": None}

    def op_rebalance(s, weight, child, base=np.nan, update=True):
        if abs(weight) < float(c.TOL):
            if child not in s.children:
                return None
        else:
            ensure_child(s, child)
        b = None if (base != base) else float(base)
        return {"op": "rebalance", "path": path_of(s), "weight": float(weight), "child": s._childrenv.index(s.children[child]),
                "base": b, "update": bool(update)}

    def op_close(s, child, update=True):
        return {"op": "close", "path": path_of(s), "child": s._childrenv.index(s.children[child]), "update": bool(update)}

    def op_flatten(s):
        return {"op": "flatten", "path": path_of(s)}

    def op_sec_allocate(sec, amount, update=True):
        return {"op": "allocate", "path": path_of(sec), "amount": float(amount), "update": bool(update)}

    def op_sec_transact(sec, q, update=True, update_self=True, price=None):
        if not update_self:
            return None
        return {"op": "transact", "path": path_of(sec), "q": float(q), "update": bool(update), "price": None if price is None else float(price)}

    wrap(c.StrategyBase, "update", op_update)
    wrap(c.StrategyBase, "adjust", op_adjust)
    wrap(c.StrategyBase, "allocate", op_allocate)
    wrap(c.StrategyBase, "transact", op_transact)
    wrap(c.StrategyBase, "rebalance", op_rebalance)
    wrap(c.StrategyBase, "close", op_close)
    wrap(c.StrategyBase, "flatten", op_flatten)
    wrap(c.SecurityBase, "allocate", op_sec_allocate)
    wrap(c.SecurityBase, "transact", op_sec_transact)
    try:
        yield steps
    finally:
        for cls, name, orig in reversed(saved):
            setattr(cls, name, orig)


# ---------------------------------------------------------------------------------------------------------------
# day level: the loop body of Backtest.run and the stepping of shadow ("paper") copies, as `btday` steps
def all_papers(bt, top):
    """every shadow copy reachable from a tree (papers of sub-strategies, papers inside papers)"""
    out = []
    stack = [top]
    while stack:
        n = stack.pop()
        for k in getattr(n, "_childrenv", None) or []:
            if isinstance(k, bt.core.StrategyBase):
                stack.append(k)
                p = getattr(k, "_paper", None)
                if p is not None and getattr(k, "_paper_trade", False):
                    out.append((k, p))
                    stack.append(p)
    return out


@contextlib.contextmanager
def record_days(bt, tops=None, limit=4000):
    """For every root strategy (a node that is its own parent: a Backtest's strategy and every shadow copy; or only the
    given `tops`), every outermost `update(date)` and `run()` call is logged with the world before and after;
    `events[id(top)]` = list of dicts, `events["objects"][id]` = the root object."""
    c = bt.core

    class _Reg(dict):
        def __contains__(self, k):
            return dict.__contains__(self, k)

    events = {"objects": {}}
    byid = {}
    active = {}
    total = [0]

    def admit(node):
        k = id(node)
        if k in byid:
            return byid[k] is node
        if tops is not None and not any(node is t for t in tops):
            return False
        try:
            if node.parent is not node:
                return False
        except Exception:
            return False
        byid[k] = node
        active[k] = 0
        events[k] = []
        events["objects"][k] = node
        return True
    orig_update = c.StrategyBase.update
    run_classes = [cls for cls in (c.StrategyBase, c.Strategy) if "run" in cls.__dict__]
    orig_runs = {cls: cls.__dict__["run"] for cls in run_classes}

    def w_update(self, date, data=None, inow=None):
        k = id(self)
        if not admit(self) or active[k] or total[0] >= limit or data is not None:
            return orig_update(self, date, data, inow)
        try:
            d = None if (isinstance(date, int) and date == 0) else int(self.data.index.get_loc(date))
        except Exception:
            d = None
        if d is None:
            return orig_update(self, date, data, inow)
        pre = E.snap_world(bt, self)
        active[k] += 1
        total[0] += 1
        try:
            r = orig_update(self, date, data, inow)
        except Exception as e:  # noqa
            events[k].append({"kind": "update", "d": d, "pre": pre, "err": E.classify_exc(e), "msg": str(e)[:200]})
            raise
        finally:
            active[k] -= 1
        events[k].append({"kind": "update", "d": d, "pre": pre, "post": E.snap_world(bt, self)})
        return r

    def mk_run(cls):
        orig = orig_runs[cls]

        def w_run(self):
            k = id(self)
            if not admit(self) or active[k] or total[0] >= limit:
                return orig(self)
            pre = E.snap_world(bt, self)
            active[k] += 1
            try:
                r = orig(self)
            except Exception as e:  # noqa
                events[k].append({"kind": "run", "pre": pre, "err": E.classify_exc(e), "msg": str(e)[:200]})
                raise
            finally:
                active[k] -= 1
            events[k].append({"kind": "run", "pre": pre, "post": E.snap_world(bt, self)})
            return r
        return w_run

    c.StrategyBase.update = w_update
    for cls in run_classes:
        setattr(cls, "run", mk_run(cls))
    try:
        yield events
    finally:
        c.StrategyBase.update = orig_update
        for cls in run_classes:
            setattr(cls, "run", orig_runs[cls])


def day_steps(events, standalone):
    """group one top's events into `btday` steps (a shadow copy's: `paperday` steps - the model's `paperDay` decides by the row
    whether the algos run).  A stand-alone backtest's first update (synthetic row) is a plain `update` step (Backtest.run does
    not call run() there); a shadow copy is only updated on row 0 as well (StrategyBase.update: `inow != 0`) and gets the full
    body on every later date."""
    day = "btday" if standalone else "paperday"
    steps = []
    i = 0
    first = True
    while i < len(events):
        e = events[i]
        if e["kind"] != "update":
            # a run() not preceded by an update of ours (user code): not a day of the loop
            i += 1
            continue
        if "err" in e:
            steps.append({"pre": e["pre"], "op": {"op": "update", "d": e["d"]}, "err": e["err"], "msg": e.get("msg")})
            i += 1
            first = False
            continue
        if first and standalone:
            st = {"pre": e["pre"], "op": {"op": "update", "d": e["d"]}, "post": e["post"]}
            E.fill_paper(st["pre"]["root"], st["post"]["root"])
            steps.append(st)
            i += 1
            first = False
            continue
        first = False
        d = e["d"]
        if i + 1 < len(events) and events[i + 1]["kind"] == "run":
            r = events[i + 1]
            if "err" in r:
                i += 2
                continue   # the algos raised: nothing to compare for this day
            if i + 2 < len(events) and events[i + 2]["kind"] == "update" and events[i + 2].get("d") == d:
                u2 = events[i + 2]
                if "err" in u2:
                    i += 3
                    continue
                w2 = r["post"]
                st = {"pre": e["pre"], "op": {"op": day, "d": d, "ran": True, "w2": w2}, "post": u2["post"]}
                E.fill_paper(st["pre"]["root"], st["post"]["root"])
                E.fill_paper(w2["root"], st["post"]["root"])
                steps.append(st)
                i += 3
                continue
            i += 2
            continue
        st = {"pre": e["pre"], "op": {"op": day, "d": d, "ran": False, "w2": None}, "post": e["post"]}
        E.fill_paper(st["pre"]["root"], st["post"]["root"])
        steps.append(st)
        i += 1
    return steps
