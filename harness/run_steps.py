"""Record the outermost public engine operations performed on a live tree (by algos, by Backtest.run) as
(pre-state, operation, post-state) steps for the Lean `step` protocol.  Everything is wrapped from outside, on the
classes of the scratch copy of bt; only calls on nodes of the given top tree at call depth 0 are recorded."""
import contextlib

import numpy as np

from . import engine as E


def path_of(node):
    p = []
    while node.parent is not node:
        p.append(node.parent._childrenv.index(node))
        node = node.parent
    return list(reversed(p))


@contextlib.contextmanager
def record_steps(bt, top, steps, limit=400):
    c = bt.core
    depth = [0]
    saved = []

    def mine(node):
        try:
            return node.root is top and depth[0] == 0 and len(steps) < limit
        except Exception:
            return False

    def wrap(cls, name, make_op):
        orig = getattr(cls, name)

        def w(self, *a, **kw):
            if not mine(self):
                depth[0] += 1
                try:
                    return orig(self, *a, **kw)
                finally:
                    depth[0] -= 1
            try:
                op = make_op(self, *a, **kw)
            except Exception:
                op = None
            if op is None:
                depth[0] += 1
                try:
                    return orig(self, *a, **kw)
                finally:
                    depth[0] -= 1
            pre = E.snap_world(bt, top)
            depth[0] += 1
            try:
                r = orig(self, *a, **kw)
            except Exception as e:  # noqa
                steps.append({"pre": pre, "op": op, "err": E.classify_exc(e), "msg": str(e)[:200]})
                raise
            finally:
                depth[0] -= 1
            post = E.snap_world(bt, top)
            E.fill_paper(pre["root"], post["root"])
            steps.append({"pre": pre, "op": op, "post": post})
            return r

        setattr(cls, name, w)
        saved.append((cls, name, orig))

    def idx_of_date(node, date):
        if isinstance(date, int) and date == 0:
            return None
        return int(top.data.index.get_loc(date))

    def ensure_child(s, child):
        if child is not None and child not in s.children:
            s._create_child_if_needed(child)   # what the operation itself does first; done before the snapshot

    def op_update(s, date, data=None, inow=None):
        if s is not top or data is not None:
            return None
        d = idx_of_date(s, date)
        return None if d is None else {"op": "update", "d": d}

    def op_adjust(s, amount, update=True, flow=True, fee=0.0):
        if fee:
            return None
        return {"op": "adjust", "path": path_of(s), "amount": float(amount), "update": bool(update), "flow": bool(flow)}

    def op_allocate(s, amount, child=None, update=True):
        if child is not None:
            ensure_child(s, child)
            return {"op": "allocate", "path": path_of(s.children[child]), "amount": float(amount), "update": True}
        return {"op": "allocate", "path": path_of(s), "amount": float(amount), "update": bool(update)}

    def op_transact(s, q, child=None, update=True):
        if child is not None:
            ensure_child(s, child)
            return {"op": "transact", "path": path_of(s.children[child]), "q": float(q), "update": True, "price": None}
        return {"op": "transact", "path": path_of(s), "q": float(q), "update": bool(update), "price": None}

    def op_rebalance(s, weight, child, base=np.nan, update=True):
        if abs(weight) < float(c.TOL):
            if child not in s.children:
                return None
        else:
            ensure_child(s, child)
        b = None if (base != base) else float(base)
        return {"op": "rebalance", "path": path_of(s), "weight": float(weight), "child": s._childrenv.index(s.children[child]),
                "base": b, "update": bool(update)}

    def op_close(s, child, update=True):
        return {"op": "close", "path": path_of(s), "child": s._childrenv.index(s.children[child]), "update": bool(update)}

    def op_flatten(s):
        return {"op": "flatten", "path": path_of(s)}

    def op_sec_allocate(sec, amount, update=True):
        return {"op": "allocate", "path": path_of(sec), "amount": float(amount), "update": bool(update)}

    def op_sec_transact(sec, q, update=True, update_self=True, price=None):
        if not update_self:
            return None
        return {"op": "transact", "path": path_of(sec), "q": float(q), "update": bool(update), "price": None if price is None else float(price)}

    wrap(c.StrategyBase, "update", op_update)
    wrap(c.StrategyBase, "adjust", op_adjust)
    wrap(c.StrategyBase, "allocate", op_allocate)
    wrap(c.StrategyBase, "transact", op_transact)
    wrap(c.StrategyBase, "rebalance", op_rebalance)
    wrap(c.StrategyBase, "close", op_close)
    wrap(c.StrategyBase, "flatten", op_flatten)
    wrap(c.SecurityBase, "allocate", op_sec_allocate)
    wrap(c.SecurityBase, "transact", op_sec_transact)
    try:
        yield steps
    finally:
        for cls, name, orig in reversed(saved):
            setattr(cls, name, orig)
