"""child process for C11: run a list of specs in a fresh interpreter and print the digest of all node histories of each"""
import json
import random
import sys


def main():
    sys.path.insert(0, sys.argv[2])
    from harness import c11_life as L, gen_runs as R, loader, runsnap as S
    import numpy as np
    bt = loader.load_bt()
    out = []
    for spec in json.load(open(sys.argv[1])):
        life = spec.get("kind") == "life"
        random.seed(spec.get("global_seed", 12345))
        if life:
            np.random.seed(spec.get("global_seed", 12345) % (2 ** 32))
        try:
            b, data, add = L.build_life_backtest(bt, spec) if life else R.build_backtest(bt, spec)
        except Exception as e:  # noqa
            out.append({"digest": "build:" + type(e).__name__, "err": type(e).__name__, "final": None, "universe": None})
            continue
        try:
            b.run()
            err = None
        except Exception as e:  # noqa
            err = type(e).__name__
        h = S.node_histories(bt, b.strategy) if hasattr(b.strategy, "data") else {}
        o = {"digest": S.digest(h), "err": err, "final": float(b.strategy._value) if err is None else None,
             "universe": [str(c) for c in b.strategy._universe.columns] if hasattr(b.strategy, "_universe") else None}
        if life:
            o["inactive"] = L.inactive_names(b.strategy)
            o["held"] = sorted(n for n, c in b.strategy.children.items() if getattr(c, "_position", 0) != 0)
        out.append(o)
    print(json.dumps(out))


if __name__ == "__main__":
    main()
