"""child process for C11: run a list of specs in a fresh interpreter and print the digest of all node histories of each"""
import json
import random
import sys


def main():
    sys.path.insert(0, sys.argv[2])
    from harness import gen_runs as R, loader, runsnap as S
    bt = loader.load_bt()
    out = []
    for spec in json.load(open(sys.argv[1])):
        random.seed(spec.get("global_seed", 12345))
        try:
            b, data, add = R.build_backtest(bt, spec)
        except Exception as e:  # noqa
            out.append({"digest": "build:" + type(e).__name__, "err": type(e).__name__, "final": None, "universe": None})
            continue
        try:
            b.run()
            err = None
        except Exception as e:  # noqa
            err = type(e).__name__
        h = S.node_histories(bt, b.strategy) if hasattr(b.strategy, "data") else {}
        out.append({"digest": S.digest(h), "err": err, "final": float(b.strategy._value) if err is None else None,
                    "universe": [str(c) for c in b.strategy._universe.columns] if hasattr(b.strategy, "_universe") else None})
    print(json.dumps(out))


if __name__ == "__main__":
    main()
