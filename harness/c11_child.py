"""child process for C11: run a list of specs in a fresh interpreter and print the digest of all node histories of each"""
import json
import random
import sys


def main():
    sys.path.insert(0, sys.argv[2])
    from harness import c11_life as L, gen_runs as R, loader, runsnap as S
    import numpy as np
    bt = loader.load_bt()
    out = []
    for spec in json.load(open(sys.argv[1])):
        if spec.get("benchmark"):
            out.append(benchmark(bt, spec, R, S, np))
            continue
        life = spec.get("kind") == "life"
        random.seed(spec.get("global_seed", 12345))
        if life:
            np.random.seed(spec.get("global_seed", 12345) % (2 ** 32))
        try:
            b, data, add = L.build_life_backtest(bt, spec) if life else R.build_backtest(bt, spec)
        except Exception as e:  # noqa
            out.append({"digest": "build:" + type(e).__name__, "err": type(e).__name__, "final": None, "universe": None})
            continue
        try:
            b.run()
            err = None
        except Exception as e:  # noqa
            err = type(e).__name__
        h = S.node_histories(bt, b.strategy) if hasattr(b.strategy, "data") else {}
        o = {"digest": S.digest(h), "err": err, "final": float(b.strategy._value) if err is None else None,
             "universe": [str(c) for c in b.strategy._universe.columns] if hasattr(b.strategy, "_universe") else None}
        if life:
            o["inactive"] = L.inactive_names(b.strategy)
            o["held"] = sorted(n for n, c in b.strategy.children.items() if getattr(c, "_position", 0) != 0)
        out.append(o)
    print(json.dumps(out))


def benchmark(bt, case, R, S, np):
    """`benchmark_random` of a generated case with the seeds fixed: digest of the price frame of all backtests + the histories of the
    random ones"""
    import hashlib
    a = bt.algos
    data = R.frame(case["prices"], case["dates"])
    w = a.WeighRandomly() if case["weigher"] == "WeighRandomly" else a.WeighEqually()
    t = bt.Strategy(case["tname"], [a.RunWeekly(), a.SelectAll(), a.SelectRandomly(case["k"]), w, a.Rebalance()])
    mine = bt.Strategy("mine", [a.RunWeekly(), a.SelectAll(), a.WeighEqually(), a.Rebalance()])
    b = bt.Backtest(mine, data, progress_bar=False)
    random.seed(case["seed"])
    np.random.seed(case["seed"] % (2 ** 32))
    try:
        res = bt.backtest.benchmark_random(b, t, nsim=case["nsim"])
    except Exception as e:  # noqa
        return {"digest": "raised:" + type(e).__name__, "err": type(e).__name__, "final": None, "universe": None}
    h = hashlib.sha256()
    for x in res.backtest_list:
        h.update(str(x.name).encode())
        h.update(S.digest(S.node_histories(bt, x.strategy)).encode())
        h.update(",".join(str(c) for c in x.data.columns).encode())
    return {"digest": h.hexdigest(), "err": None, "final": [float(x.strategy._value) for x in res.backtest_list],
            "universe": [[str(c) for c in x.data.columns] for x in res.backtest_list]}


if __name__ == "__main__":
    main()
