"""Load bt from /repo's *current working tree* as pure Python.

/repo/bt contains a stale, git-ignored compiled core (.so/.c); importing bt from
/repo would silently ignore edits to core.py.  Every check therefore copies
bt/*.py into a private scratch directory (no .so, no .c) and imports that copy.
"""
import atexit
import importlib
import os
import shutil
import sys
import tempfile

REPO = os.environ.get("BT_REPO", "/repo")
_scratch = None


def scratch_dir():
    global _scratch
    if _scratch is None:
        _scratch = tempfile.mkdtemp(prefix="btverif_")
        atexit.register(shutil.rmtree, _scratch, True)
    return _scratch


def source_files():
    src = os.path.join(REPO, "bt")
    return sorted(f for f in os.listdir(src) if f.endswith(".py"))


def load_bt():
    """Returns the freshly imported bt package (pure-Python build of the working tree)."""
    d = scratch_dir()
    dst = os.path.join(d, "bt")
    if not os.path.isdir(dst):
        os.makedirs(dst)
        for f in source_files():
            shutil.copy2(os.path.join(REPO, "bt", f), os.path.join(dst, f))
    for m in [m for m in sys.modules if m == "bt" or m.startswith("bt.")]:
        del sys.modules[m]
    if d not in sys.path:
        sys.path.insert(0, d)
    import warnings
    warnings.filterwarnings("ignore")
    bt = importlib.import_module("bt")
    import bt.core
    assert os.path.realpath(bt.core.__file__).startswith(os.path.realpath(d)), bt.core.__file__
    import cython
    assert not cython.compiled
    return bt


def source_digest():
    import hashlib
    h = hashlib.sha256()
    for f in source_files():
        h.update(f.encode())
        h.update(open(os.path.join(REPO, "bt", f), "rb").read())
    return h.hexdigest()[:16]
