"""Property monitors evaluated on the real objects (public API + recorded series), independent of the Lean model.

All functions return a list of (key, message).  `user` is the log of adjustments the *driver of the history*
made directly: {(full_name, date_index): [flow_sum, nonflow_sum]} — in a Backtest the only such adjustment is the
initial capital (recorded by bt itself as a flow on the synthetic row)."""
import math

import numpy as np


def rtol(*xs):
    return 1e-9 * max([1.0] + [abs(float(x)) for x in xs if x == x])


def _series(node, name):
    return getattr(node, name)


def _vals(s, n):
    a = np.asarray(s.values, dtype=float)[:n]
    if len(a) < n:
        a = np.concatenate([a, np.zeros(n - len(a))])
    return a


def node_tables(bt, root, n):
    """recorded rows (first n dates) of every node, read once"""
    c = bt.core
    out = {}
    for nd in root.members:
        if isinstance(nd, c.SecurityBase):
            d = {"kind": "sec", "node": nd, "parent": nd.parent.full_name, "mult": float(nd.multiplier),
                 "pos": _vals(nd._positions, n), "price": _vals(nd._prices, n), "val": _vals(nd._values, n),
                 "notl": _vals(nd._notl_values, n), "outlay": _vals(nd._outlays, n)}
            d["bop"] = _vals(nd._bidoffers_paid, n) if nd._bidoffer_set else np.zeros(n)
            if hasattr(nd, "_coupon_income"):
                d["coupon"] = _vals(nd._coupon_income, n)
                d["holding"] = _vals(nd._holding_costs, n)
            else:
                d["coupon"] = np.zeros(n)
                d["holding"] = np.zeros(n)
        else:
            d = {"kind": "strat", "node": nd, "parent": nd.parent.full_name if nd.parent is not nd else None,
                 "fi": bool(nd.fixed_income), "paper": bool(nd._paper_trade),
                 "cash": _vals(nd._cash, n), "fees": _vals(nd._fees, n), "flows": _vals(nd._all_flows, n),
                 "val": _vals(nd._values, n), "notl": _vals(nd._notl_values, n), "price": _vals(nd._prices, n)}
        out[nd.full_name] = d
    return out


def ledger_check(bt, root, n, user=None):
    """C07: per strategy node and closed date the cash change reconciles with flows, outlays, fees,
    capital passed down and swept coupons."""
    user = user or {}
    tabs = node_tables(bt, root, n)
    out = []
    for name, d in tabs.items():
        if d["kind"] != "strat":
            continue
        own_secs = [s for s in tabs.values() if s["kind"] == "sec" and s["parent"] == name]
        sub = [(nm, s) for nm, s in tabs.items() if s["kind"] == "strat" and s["parent"] == name]
        for i in range(n):
            prev = d["cash"][i - 1] if i > 0 else 0.0
            uf, unf = user.get((name, i), (0.0, 0.0))
            rhs = d["flows"][i] + unf
            for s in own_secs:
                rhs -= s["outlay"][i]
                if i > 0:
                    rhs += s["coupon"][i - 1] - s["holding"][i - 1]
            rhs -= d["fees"][i]
            for nm, s in sub:
                cuf, _ = user.get((nm, i), (0.0, 0.0))
                rhs -= (s["flows"][i] - cuf)
            lhs = d["cash"][i] - prev
            if lhs != lhs or rhs != rhs:
                break  # NaN cash: a trade at a missing price happened earlier (ill-formed; C10)
            scale = [lhs, rhs, d["cash"][i], prev, d["flows"][i]] + [s["outlay"][i] for s in own_secs]
            if not (abs(lhs - rhs) <= rtol(*scale)):
                out.append(("ledger", "%s date#%d: cash change %r != flows %r + nonflow %r - outlays %r - fees %r - passed down %r + coupons-costs(prev) => %r"
                            % (name, i, lhs, d["flows"][i], unf, [s["outlay"][i] for s in own_secs], d["fees"][i],
                               [s["flows"][i] for _, s in sub], rhs)))
                break
    return out


def trade_books_check(log, top_id=None):
    """C07 per trade: outlay, half-spread / custom difference, commission charged once to the own parent, not a flow."""
    out = []
    for t in log:
        q = t["q"]
        p = t["price"]
        m = t["mult"]
        if abs(q) < 1e-16 or q != q or p != p:
            continue
        pos0, cap0, fee0, fl0, out0, bo0 = t["before"]
        pos1, cap1, fee1, fl1, out1, bo1 = t["after"]
        if any(x != x for x in t["before"]) or any(x != x for x in t["after"]):
            continue  # state already poisoned by an earlier trade at a missing price (ill-formed; C10)
        if t["custom"] is None:
            spread = abs(q) * 0.5 * t["bidoffer"] * m
            fee = t["comm"](q, p * m)
        else:
            spread = q * (t["custom"] - p) * m
            fee = t["comm"](q, t["custom"] * m)
        if spread != spread:
            continue
        outlay = q * p * m + spread
        tol = rtol(outlay, fee, cap0, cap1, spread)
        checks = [
            ("position", pos1 - pos0, q),
            ("outlay-accumulator", out1 - out0, outlay),
            ("bidoffer-paid", bo1 - bo0, spread),
            ("parent-cash", cap1 - cap0, -(outlay + fee)),
            ("parent-fee", fee1 - fee0, fee),
            ("parent-flows", fl1 - fl0, 0.0),
        ]
        for nm, got, exp in checks:
            if not (abs(got - exp) <= max(tol, rtol(got, exp))):
                out.append(("trade-" + nm, "trade of %r %s at %r (custom %r, mult %r): %s moved by %r, expected %r"
                            % (q, t["sec"], p, t["custom"], m, nm, got, exp)))
                break
    return out


def index_check(bt, root, n, par=100.0):
    """C03: root index starts at PAR and follows the flow-neutral recurrence on every closed date"""
    out = []
    d = node_tables(bt, root, n)[root.full_name]
    if n == 0:
        return out
    if not root.fixed_income:
        bottom0 = d["flows"][0]
        if abs(bottom0) > 1e-12 and abs(d["val"][0] - bottom0) <= rtol(bottom0) and abs(d["price"][0] - par) > rtol(par):
            out.append(("index-start", "index starts at %r, not %r" % (d["price"][0], par)))
    for i in range(1, n):
        v0, v1, f, p0, p1 = d["val"][i - 1], d["val"][i], d["flows"][i], d["price"][i - 1], d["price"][i]
        if any(x != x for x in (v0, v1, f, p0, p1)):
            continue      # NaN booked from NaN data (a missing bid/offer quote ...): C10's subject, no recurrence to judge
        if root.fixed_income:
            n0 = d["notl"][i - 1]
            n1 = d["notl"][i]
            pnl = v1 - (v0 + f)
            base = n0 if abs(n0) >= 1e-16 else n1
            if abs(base) < 1e-16:
                if abs(pnl) > 1e-9 and False:
                    pass
                exp = p0
            else:
                exp = p0 + par * pnl / base
            if not (abs(p1 - exp) <= 1e-9 * max(1.0, abs(p1), abs(exp), abs(par * pnl / base) if abs(base) >= 1e-16 else 0.0)):
                out.append(("fi-index", "date#%d: fixed-income index %r != %r + 100*(%r - %r - %r)/%r = %r" % (i, p1, p0, v1, v0, f, base, exp)))
                break
        else:
            bottom = v0 + f
            if abs(bottom) < 1e-12:
                continue
            lhs = p1 * bottom
            rhs = p0 * v1
            if not (abs(lhs - rhs) <= 1e-9 * max(1.0, abs(lhs), abs(rhs), abs(p1 * v0), abs(p1 * f))):
                out.append(("index-recurrence", "date#%d: price %r * (value[t-1] %r + flows %r) = %r != price[t-1] %r * value %r = %r"
                            % (i, p1, v0, f, lhs, p0, v1, rhs)))
                break
    return out


def pnl_check(bt, root, n, user=None):
    """C02: change of the root value between consecutive closed dates = MTM on the positions held + flows +
    non-flow adjustments + coupons less holding costs accrued on the earlier date - fees - bid/offer costs."""
    user = user or {}
    tabs = node_tables(bt, root, n)
    out = []
    top = tabs[root.full_name]
    secs = [s for s in tabs.values() if s["kind"] == "sec"]
    strats = [(nm, s) for nm, s in tabs.items() if s["kind"] == "strat"]
    for i in range(1, n):
        mtm = 0.0
        scale = []
        bad = False
        for s in secs:
            q = s["pos"][i - 1]
            if abs(q) < 1e-16:
                continue
            p0, p1 = s["price"][i - 1], s["price"][i]
            if p0 != p0 or p1 != p1:
                bad = True
                break
            mtm += q * (p1 - p0) * s["mult"]
            scale.append(q * p1 * s["mult"])
        if bad:
            continue
        carry = sum(s["coupon"][i - 1] - s["holding"][i - 1] for s in secs)
        fees = sum(s["fees"][i] for _, s in strats)
        bop = sum(s["bop"][i] for s in secs)
        ext = top["flows"][i]
        for nm, s in strats:
            uf, unf = user.get((nm, i), (0.0, 0.0))
            ext += unf
            if nm != root.full_name:
                ext += uf
        lhs = top["val"][i] - top["val"][i - 1]
        rhs = mtm + ext + carry - fees - bop
        if lhs != lhs or rhs != rhs:
            break
        if not (abs(lhs - rhs) <= rtol(lhs, rhs, top["val"][i], top["val"][i - 1], mtm, ext, fees, bop, *scale)):
            out.append(("pnl-attribution", "date#%d: value change %r != MTM %r + flows/adjustments %r + carry %r - fees %r - bid/offer %r = %r"
                        % (i, lhs, mtm, ext, carry, fees, bop, rhs)))
            break
    return out


def user_log_from_ops(spec, steps):
    """adjustments made directly by the history driver, per (node full name, date index)"""
    def name_of(path):
        t = spec["tree"]
        names = [t["name"]]
        for i in path:
            t = t["kids"][i]
            names.append(t.get("name") or t["sec"])
        return ">".join(names)
    user = {}
    d = None
    for st in steps:
        op = st["op"]
        if "err" in st:
            break
        if op["op"] == "update":
            d = op["d"]
        elif op["op"] == "adjust":
            di = d if d is not None else 0
            key = (name_of(op["path"]), di)
            uf, unf = user.get(key, (0.0, 0.0))
            if op["flow"]:
                uf += op["amount"]
            else:
                unf += op["amount"]
            user[key] = (uf, unf)
    return user


def node_balances(world):
    """the quantity `bal_d` of theorem C07.ledger_step for every strategy of a snapshot: cash + fees - flows + own securities'
    (outlay row of the date + pending outlay) + sub-strategies' flows; keyed by path.  None when a clock is not set."""
    out = {}

    def rec(n, path):
        if n["t"] != "T":
            return
        d = n["now"]
        if d is None:
            out[path] = None
        else:
            terms = [n["capital"], n["lastFee"], -n["netFlows"]]
            for k in n["kids"]:
                if k["t"] == "S":
                    row = k["rOutlay"][d] if d < len(k["rOutlay"]) else 0.0
                    terms += [row, k["outlayAcc"]]
                else:
                    terms.append(k["netFlows"])
            out[path] = (sum(terms), max([1.0] + [abs(x) for x in terms]))
        for i, k in enumerate(n["kids"]):
            rec(k, path + (i,))
    rec(world["root"], ())
    return out


def live_ledger_check(step):
    """C07 at the level of one operation (theorem `ledger_step`): any public call made while the clocks stand still keeps the
    balance of every strategy node, except a direct adjust - which moves the balance of the adjusted node by a non-flow amount, or
    that of its parent by a flow amount (the parent has passed that capital down).  Returns [(key, message)]."""
    if "post" not in step:
        return []
    op = step["op"]
    pre, post = step["pre"], step["post"]
    if op["op"] == "update" and pre["root"]["now"] != op.get("d"):
        return []          # a date change: accumulators are reset, carry is swept (judged by the per-date ledger)
    b0, b1 = node_balances(pre), node_balances(post)
    exp = {}
    if op["op"] == "adjust":
        p = tuple(op["path"])
        if op.get("flow", True):
            if p:
                exp[p[:-1]] = op["amount"]
        else:
            exp[p] = op["amount"]
    out = []
    for path, v0 in b0.items():
        v1 = b1.get(path)
        if v0 is None or v1 is None:
            continue
        (v0, s0), (v1, s1) = v0, v1
        if v0 != v0 or v1 != v1:
            continue
        want = exp.get(path, 0.0)
        scale = max(s0, s1, abs(want))     # the terms are large and cancel: judge against their magnitude
        if abs((v1 - v0) - want) > 1e-9 * scale:
            out.append(("node-balance:" + op["op"], "strategy at path %r: cash + fees - flows + own outlays + capital passed down moved by %r over a %s (expected %r)"
                        % (list(path), v1 - v0, op["op"], want)))
            break
    return out


def world_total(world):
    """`total` of theorem C02.step_total: the cash of every strategy + position x price x multiplier of every security, with the fee and bid/offer measures the theorem uses.  -> (total, fees, bidoffer, scale) or None when
    the tree is not in the day invariant (a strategy off the root's date, a held security off the date or without a price)."""
    d = world["root"]["now"]
    if d is None:
        return None
    tot = [0.0]
    fees = [0.0]
    bo = [0.0]
    terms = [1.0]
    ok = [True]

    def rec(n):
        if n["t"] == "T":
            if n["now"] != d:
                ok[0] = False
                return
            tot[0] += n["capital"]
            fees[0] += n["lastFee"]
            terms.append(abs(n["capital"]))
            for k in n["kids"]:
                rec(k)
        else:
            # (the carry parked on a security is not part of `total`: it is an accrual of the date, recomputed by every update of the
            #  date from the position then held, and becomes cash only when it is swept on the next date)
            if n["position"] != 0.0:
                if n["now"] != d or n["price"] is None:
                    ok[0] = False
                    return
                v = n["position"] * n["price"] * n["mult"]
                tot[0] += v
                terms.append(abs(v))
            b = n["bidofferPaid"]
            if n["bidofferSet"] and n["now"] != d:
                b = 0.0            # its reset is pending until something refreshes it on this date
            bo[0] += b
            terms.append(abs(b))
    rec(world["root"])
    if not ok[0]:
        return None
    return tot[0], fees[0], bo[0], max(terms)


def live_total_check(step):
    """C02 at the level of one operation (theorem `step_total`): while the clocks stand still, every public call changes the total
    by the capital injected (the amount of an adjust) minus the fees and bid/offer costs booked by the call."""
    if "post" not in step:
        return []
    op = step["op"]
    pre, post = step["pre"], step["post"]
    if op["op"] == "update" and pre["root"]["now"] != op.get("d"):
        return []
    if post["root"]["bankrupt"] and not pre["root"]["bankrupt"]:
        return []          # the liquidation is judged by its own theorem (closing costs only) on closed dates
    a, b = world_total(pre), world_total(post)
    if a is None or b is None:
        return []
    inj = op["amount"] if op["op"] == "adjust" else 0.0
    want = inj - (b[1] - a[1]) - (b[2] - a[2])
    got = b[0] - a[0]
    if got != got or want != want:
        return []
    scale = max(a[3], b[3], abs(inj))
    if abs(got - want) > 1e-9 * scale:
        return [("total-not-conserved:" + op["op"], "total (all cash + positions at the current prices) moved by %r over a %s; injected %r, fees %r, bid/offer %r give %r"
                 % (got, op["op"], inj, b[1] - a[1], b[2] - a[2], want))]
    return []


# ------------------------------------------------------------------ end-of-date rows (C01: "the rows recorded for each date equal that end-of-date state")
import contextlib as _contextlib


@_contextlib.contextmanager
def eod_watch(bt):
    """At the moment a tree is moved to a new date, the rows recorded for the date it leaves must equal the live state it leaves
    behind: positions of the securities being marked, cash of every strategy (and values, once nothing is pending).  Observed on
    every root (a backtest's tree and every shadow copy) at the start of the first `update` to a later date - no reads that would
    refresh anything.  Yields the list the findings are appended to: (root full name, date left, node, field, recorded, live)."""
    c = bt.core
    orig = c.StrategyBase.update
    found = []

    def rows_vs_live(root):
        now = root.now
        try:
            i = root.data.index.get_loc(now)
        except Exception:
            return
        for n in root.members:
            if isinstance(n, c.SecurityBase):
                if n.now != now:
                    continue      # a flat security that is (legitimately) not being marked
                pairs = [("position", n._positions.values[i], n._position)]
            else:
                if n.now != now:
                    continue
                pairs = [("cash", n._cash.values[i], n._capital)]
            for nm, rec, live in pairs:
                if rec != live and not (rec != rec and live != live) and abs(rec - live) > 1e-9 * max(1.0, abs(rec), abs(live)):
                    found.append((root.full_name, str(now), n.full_name, nm, float(rec), float(live)))

    def w(self, date, data=None, inow=None):
        try:
            if self.parent is self and not (isinstance(self.now, int) and self.now == 0) and date != self.now and hasattr(self, "data"):
                rows_vs_live(self)
        except Exception:
            pass
        return orig(self, date, data, inow)
    c.StrategyBase.update = w
    try:
        yield found
    finally:
        c.StrategyBase.update = orig


def carry_inputs_check(bt, root, spec):
    """the carry a coupon-paying security accrues is computed from the frames that were SUPPLIED: every such security holds the
    coupon column, the long-cost column and the short-cost column of its own name from the spec (each of the two cost frames on
    its own: a one-sided schedule is common), or nothing where the spec supplies nothing"""
    out = []
    for m in root.members:
        if not hasattr(m, "_coupon_income"):
            continue
        for attr, key in (("_cost_long", "cost_long"), ("_cost_short", "cost_short")):
            col = (spec.get(key) or {}).get(m.name)
            have = getattr(m, attr, None)
            if col is None:
                continue          # nothing supplied for this name on this side: whatever the security does with "nothing" is judged by the carry rows
            if have is None:
                out.append(("carry-input-dropped:" + key, "%s: the %s column supplied for it (%r ...) is not what the security uses (it uses none)"
                            % (m.full_name, key, col[:3])))
                continue
            vals = [float(x) for x in list(getattr(have, "values", have))]
            want = [float("nan") if x is None else float(x) for x in col]
            tail = vals[-len(want):] if len(vals) >= len(want) else vals
            if len(tail) != len(want) or any((a != b) and not (a != a and b != b) for a, b in zip(tail, want)):
                out.append(("carry-input-differs:" + key, "%s: uses %s %r, supplied %r" % (m.full_name, key, tail[:4], want[:4])))
    return out
