"""setup-time self test: the driver answers, bt loads from the working tree."""
import sys

from . import leanrun, loader


def main():
    leanrun.ensure_driver()
    out = leanrun.run_lines(["nonsense"])
    assert out[0].startswith("bad"), out
    bt = loader.load_bt()
    assert hasattr(bt, "Backtest")
    print("selftest ok; bt from", bt.__file__)
    return 0


if __name__ == "__main__":
    sys.exit(main())
