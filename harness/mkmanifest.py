"""Writes MANIFEST.json from the tables below (kept in one place so it is always schema-valid)."""
import json
import os

HERE = os.path.dirname(os.path.dirname(os.path.abspath(__file__)))
TECH = "Lean 4 theorems over an executable model + differential correspondence of that model with the real code + monitors as failing-input search"
NOTE = ("Trusted: Lean kernel (axioms propext, Classical.choice, Quot.sound only; no sorry/native_decide), the hand-written model being faithful "
        "(checked by the correspondence run, on generated inputs only), exact-arithmetic theorems vs IEEE doubles, harness code.")

# pid -> (level text, design ref)
CLAIMED = {
    "C01": ("Theorems (Lean 4, any linearly ordered field) about the engine model's update: a marked security carries position*price*multiplier, "
            "NaN price with an open position raises, strategy value = cash + children, weights = value/parent value; "
            "the model is re-run from the real pre-state on every generated step and compared inside the C01 footprint "
            "(value, notional, weight, position, rows, flags); a monitor recomputes the identity from public getters at recorded observation points.",
            "DESIGN 7 C01"),
    "C05": ("30 theorems about the model of SecurityBase.allocate (allocQ0, sizeLoop with the code's 10^4 cap as fuel, allocQuantity, secAllocate): zero amount / bad price / "
            "close-out, exit characterisation of the sizing search for every fuel and outlay function, integrality and maximality under a strictly monotone outlay, "
            "fractional exactness, budget with the isclose tolerance, no-raise for flat-fee and fractional per-unit/proportional costs (partial), and Lean witnesses over Q of "
            "the inputs on which the current code breaks the budget rule (known findings) or raises; every allocate of a dense generated sweep is re-executed by the model from "
            "the real pre-state (bit-exact) and a monitor checks budget, maximality, close-out, zero and refusal on the real objects.",
            "DESIGN 7 C05"),
    "C02": ("12 theorems: `total` (cash of every strategy + position*price*multiplier of every security) is changed by a trade only by fee and spread, by adjust exactly by "
            "the amount, by allocations into sub-strategies (any depth, mutual induction over allocNode/allocKids) only by the costs of the trades they cause; any sequence of "
            "adjust/allocate/transact changes it by injected capital minus booked costs; an update on a new date moves value by position*(price'-price)*multiplier plus parked "
            "coupons (whole tree); day-level attribution is `pnl_attribution_partial` (assumes the C01 balance at the observation points; closing update and "
            "flatten/close/rebalance not covered by the theorem). Steps of generated histories re-executed by the model (C02 footprint); monitor: day-by-day decomposition "
            "from recorded series on histories and whole generated backtests.",
            "DESIGN 7 C02"),
    "C03": ("15 theorems: the written index satisfies price'*(lastValue+netFlows) = lastPrice*value (market value) / the additive form (fixed income), zero base raises, "
            "first write gives PAR, a flow that is the only event of a date leaves the index unchanged and a non-flow moves it, homogeneity of degree 0 of the write, and the "
            "recurrence across updNode/updRoot and across a whole day of adjust/allocate/transact between an opening and a closing update; plus a Lean witness that a flow booked "
            "AFTER same-date P&L does move the index (the recurrence still holds). Step correspondence (C03 footprint); monitors: recurrence on every closed date of histories "
            "and generated backtests with CapitalFlow, cash-only strategies under random flows, scaled-capital twins.",
            "DESIGN 7 C03"),
    "C07": ("15 theorems: transact books exactly q*p*m + half-spread (or custom-price difference) as outlay, commission(q, p*m) as fee, one non-flow adjustment on the security's own "
            "parent and nothing else (frame), zero quantity is a no-op, adjust books amount/fee/flow and nothing else, probes of the sizing search are pure, accumulators reset exactly "
            "on a date change, sub-strategy allocation debits the parent as a non-flow and credits the child as a flow, the root's debit and credit cancel, rows of cash/fees/flows "
            "hold the state after update, deep operations reach no ancestor above the parent, and the per-node ledger of an allocation. Step correspondence (C07 footprint); monitors: "
            "ledger equation per node and closed date, every executed trade checked from an external trade log.",
            "DESIGN 7 C07"),
    "C08": ("23 theorems: secUpdate, updNode (every tree, mutual induction), updRoot (bankruptcy branch included) and refresh are idempotent (under NoDust: is_zero(position) -> "
            "position = 0; the unrestricted statement is refuted by a Lean witness and replayed on the real code as a known finding), k further updates change nothing, a refreshing "
            "read equals refresh / is the identity on a fresh world, update writes rows only at the current index (hedge notional rows stay zero), transact writes no row, and every "
            "public operation (hence every finite sequence) keeps the tree shape and the length of every row list. Whole-snapshot step correspondence; monitors: update-twice twins, "
            "read-vs-explicit-update twins, past rows compared between consecutive snapshots, no series beyond now.",
            "DESIGN 7 C08"),
}
# pid -> reason it is not claimed (yet)
NOT_YET = {}


def main():
    props = [json.loads(l) for l in open(os.path.join(HERE, "properties.jsonl"))]
    checks = []
    na = []
    for p in props:
        pid = p["id"]
        if pid in CLAIMED:
            text, ref = CLAIMED[pid]
            checks.append({
                "property_id": pid,
                "quick_cmd": "./check %s --tier quick" % pid,
                "thorough_cmd": "./check %s --tier thorough" % pid,
                "evidence_file": "evidence/%s.json" % pid,
                "replay_cmd_template": "/venv/bin/python harness/replay.py {path}",
                "engine": "lean-model+correspondence",
                "level_claimed": {"category": "proof", "text": text, "design_ref": ref},
                "level_note": NOTE,
                "technique": TECH,
            })
        else:
            na.append({"property_id": pid, "reason": NOT_YET.get(pid, "check not built yet in this round (work in progress; DESIGN.md section 7 has the plan)")})
    m = {
        "version": 1,
        "setup_cmd": "cd lean && lake build Bt btdriver && cd .. && /venv/bin/python -m harness.selftest",
        "hooks": {"guard": "BT_VERIF", "enable": "no hooks are needed: the harness reads private attributes from outside",
                  "baseline_off_cmd": "cd /repo && /venv/bin/python -m pytest -q -p no:cacheprovider --timeout=900",
                  "source_commits": [], "add_only": True},
        "engines": [{"name": "lean-model+correspondence", "path": "lean/ harness/", "serves_properties": sorted(CLAIMED),
                     "kind_free_text": "Lean 4 library Bt (model + theorems), native driver btdriver, Python harness running the real bt from /repo's working tree"}],
        "checks": checks,
        "not_applicable": na,
        "notes": "fix commits in /repo are listed in known_findings.json (status fixed).",
    }
    with open(os.path.join(HERE, "MANIFEST.json"), "w") as f:
        json.dump(m, f, indent=1)


if __name__ == "__main__":
    main()
