"""Writes MANIFEST.json from the tables below (kept in one place so it is always schema-valid)."""
import json
import os

HERE = os.path.dirname(os.path.dirname(os.path.abspath(__file__)))
TECH = "Lean 4 theorems over an executable model + differential correspondence of that model with the real code + monitors as failing-input search"
NOTE = ("Trusted: Lean kernel (axioms propext, Classical.choice, Quot.sound only; no sorry/native_decide), the hand-written model being faithful "
        "(checked by the correspondence run, on generated inputs only), exact-arithmetic theorems vs IEEE doubles, harness code.")

# pid -> (level text, design ref)
CLAIMED = {
    "C01": ("Theorems (Lean 4, any linearly ordered field) about the engine model's update: a marked security carries position*price*multiplier, "
            "NaN price with an open position raises, strategy value = cash + children, weights = value/parent value; "
            "the model is re-run from the real pre-state on every generated step and compared inside the C01 footprint "
            "(value, notional, weight, position, rows, flags); a monitor recomputes the identity from public getters at recorded observation points. "
            "Fragment C01_run: `btDay_balanced` / `btLoop_balanced` / `btRun_balanced` - at the end of every date of Backtest.run with any public algos every strategy at every depth is balanced, "
            "securities are marked, weights are value shares, and the rows of the date equal the end-of-date state and are kept to the end of the run (the one exception, the bankruptcy step "
            "taken by an opening update, stated exactly); instances for program trees without hypotheses on the algos.",
            "DESIGN 7 C01"),
    "C05": ("30 theorems about the model of SecurityBase.allocate (allocQ0, sizeLoop with the code's 10^4 cap as fuel, allocQuantity, secAllocate): zero amount / bad price / "
            "close-out, exit characterisation of the sizing search for every fuel and outlay function, integrality and maximality under a strictly monotone outlay, "
            "fractional exactness, budget with the isclose tolerance, no-raise for flat-fee and fractional per-unit/proportional costs (partial), and Lean witnesses over Q of "
            "the inputs on which the current code breaks the budget rule (known findings) or raises; every allocate of a dense generated sweep is re-executed by the model from "
            "the real pre-state (bit-exact) and a monitor checks budget, maximality, close-out, zero and refusal on the real objects.",
            "DESIGN 7 C05"),
    "C02": ("12 theorems: `total` (cash of every strategy + position*price*multiplier of every security) is changed by a trade only by fee and spread, by adjust exactly by "
            "the amount, by allocations into sub-strategies (any depth, mutual induction over allocNode/allocKids) only by the costs of the trades they cause; any sequence of "
            "adjust/allocate/transact changes it by injected capital minus booked costs; an update on a new date moves value by position*(price'-price)*multiplier plus parked "
            "coupons (whole tree); day-level attribution is `pnl_attribution_partial` (assumes the C01 balance at the observation points; closing update and "
            "flatten/close/rebalance not covered by the theorem). Steps of generated histories re-executed by the model (C02 footprint); monitor: day-by-day decomposition "
            "from recorded series on histories and whole generated backtests.",
            "DESIGN 7 C02"),
    "C03": ("15 theorems: the written index satisfies price'*(lastValue+netFlows) = lastPrice*value (market value) / the additive form (fixed income), zero base raises, "
            "first write gives PAR, a flow that is the only event of a date leaves the index unchanged and a non-flow moves it, homogeneity of degree 0 of the write, and the "
            "recurrence across updNode/updRoot and across a whole day of adjust/allocate/transact between an opening and a closing update; plus a Lean witness that a flow booked "
            "AFTER same-date P&L does move the index (the recurrence still holds). Fragment C03_run: the invariant `IdxInv` (price and value are those of the last index write) is preserved by "
            "every public call incl. flatten/close/rebalance/reads and the bankruptcy branch (`run_root_index`, generic lift), `btDay_index` for any public algos (recurrence, or the documented "
            "alternative: the closing update found the value within TOL and wrote nothing - Lean witness that this alternative is real: +50 flow and -50 non-flow on one date), "
            "`btLoop_index_product` (chain of consecutive closes, telescoped product, rows hold the closing figures), `btRun_index_start` (PAR on the synthetic row), "
            "`initial_capital_is_flow_neutral`, `cash_only_index_constant` (with the Lean witness that a flow below TOL is not written), `scale_invariance_run_partial` (closing figures scaled "
            "by k give the same index; that the engine scales them cannot hold unconditionally because TOL is absolute - witness). Step correspondence (C03 footprint); monitors: recurrence on every closed date of histories "
            "and generated backtests with CapitalFlow, cash-only strategies under random flows, scaled-capital twins.",
            "DESIGN 7 C03"),
    "C07": ("15 theorems: transact books exactly q*p*m + half-spread (or custom-price difference) as outlay, commission(q, p*m) as fee, one non-flow adjustment on the security's own "
            "parent and nothing else (frame), zero quantity is a no-op, adjust books amount/fee/flow and nothing else, probes of the sizing search are pure, accumulators reset exactly "
            "on a date change, sub-strategy allocation debits the parent as a non-flow and credits the child as a flow, the root's debit and credit cancel, rows of cash/fees/flows "
            "hold the state after update, deep operations reach no ancestor above the parent, and the per-node ledger of an allocation. Fragment C07_day (14 theorems): the node balance bal_d = cash + fees - flows + own securities' "
            "(outlay row + pending outlay) + sub-strategies' flows is kept by EVERY public call other than a direct adjust, on every strategy node at every depth (`ledger_step`, `ledger_run`); "
            "`opening_update_ledger` (each strategy receives exactly the carry parked on its own securities, accumulators reset), `btDay_ledger` / `btDay_ledger_rows` (the property's ledger "
            "equation per node and date, read from the recorded rows of the date, for any public algos), `btLoop_ledger`, `btRun_ledger`, `trade_charged_once` / `allocate_charged_once` "
            "(one non-flow adjustment on the security's own parent, nobody else touched, no flow created), `flows_created`, `bankruptcy_day_ledger`. Step correspondence (C07 footprint); monitors: "
            "ledger equation per node and closed date, every executed trade checked from an external trade log.",
            "DESIGN 7 C07"),
    "C08": ("23 theorems: secUpdate, updNode (every tree, mutual induction), updRoot (bankruptcy branch included) and refresh are idempotent (under NoDust: is_zero(position) -> "
            "position = 0; the unrestricted statement is refuted by a Lean witness and replayed on the real code as a known finding), k further updates change nothing, a refreshing "
            "read equals refresh / is the identity on a fresh world, update writes rows only at the current index (hedge notional rows stay zero), transact writes no row, and every "
            "public operation (hence every finite sequence) keeps the tree shape and the length of every row list. Whole-snapshot step correspondence; monitors: update-twice twins, "
            "read-vs-explicit-update twins, past rows compared between consecutive snapshots, no series beyond now. "
            "Fragment C08_run: over Backtest.run with any public algos no recorded row of an earlier date ever changes and no series grows (`btLoop_append_only`, `btRun_append_only`, program "
            "instances), a further update after a day is the identity (`btDay_update_idem`), the world a day returns is not stale and any read leaves every strategy unchanged (`btDay_reads_fresh`).",
            "DESIGN 7 C08"),
    "C12": ("Theorems (Lean 4, lists of any length, all flag combinations, all n/offset/day-count parameters) about an executable model of RunPeriod.__call__ + the five compare_dates + RunOnce/RunOnDate/RunAfterDate/RunAfterDays/RunEveryNPeriods over a forward civil calendar (leap years, ISO year/week proved to identify the Monday week, period identifiers proved monotone in time): pre-start row, None and foreign dates never fire; first/last row = flag; interior row fires iff the period identifier changes against the neighbour = first (last) row of its period; closed forms of the counting schedulers incl. once per distinct date. The property text as a whole is proved off the edge rows and, for RunWeekly, off weeks that straddle New Year; on those inputs the code violates the text (Lean witnesses, listed as known findings). The model is compared with the real schedulers (direct calls on a real Strategy and whole Backtest runs) on generated indices, the Lean calendar with pandas on every generated timestamp (thorough: every day of pandas' ns range); an independent stdlib-datetime monitor evaluates the text on the real results.",
            "DESIGN 7 C12"),
    "C13": ("Theorems (Lean 4, every state type, every algo = attribute + arbitrary state transformer that returns a bool or raises, lists of any length, hence nested stacks and Or branches): AlgoStack.__call__ with its two execution modes equals one specification loop (prefix up to the first False, then exactly the later run_always-true algos, result False); result True iff all returned True; the two modes agree; Or calls every branch and returns the disjunction; Not inverts; Require's three cases; RunIfOutOfBounds over any ordered field: True iff some child named in the targets has |w-t|/|t| > tolerance (non-zero targets, no cash entry) and AttributeError on the cash branch (known finding); Strategy.run on every tree: temp has no influence, visit order = depth-first preorder, each strategy once per run, n runs. The model (scripted mocks with run_always absent/True/False, temp/perm writes) is compared exactly with the real bt objects on exhaustive truth tables of flat stacks (length <= 5 quick, <= 6 thorough), generated nested programs, RunIfOutOfBounds on real strategies around the tolerance boundary and trees of strategies run repeatedly; the monitor is an oracle written from the property text (call log, result, temp, perm), also applied to whole Backtest runs.",
            "DESIGN 7 C13"),
    "C14": ("Theorems (Lean 4; the flag/universe/look-ahead ones for any number type with < and 0, ranking for any linear order, total return for ordered fields) about an executable model of the 13 selection algos: each selector meets its specification (exact filtered list, KeyError cases), default flags give only tickers with a present positive current price, filters return sub-lists of the prior selection, nothing after `now` is read, SelectN's stable-sort function satisfies the order-insensitive top-k relation whose meaning (size min(k,|eligible|), dominance, all_or_none, filter_selected) is proved, StatTotalReturn = last/first-1 over the resolved window.  The model is run against the real algos on generated universes/parameters/prior temp (direct calls and tapped Backtest runs; lists compared exactly, ranked/random outputs by evaluating the Lean relation on the real output; window positions checked against the frame the algo actually slices); an independent monitor recomputes the documented set.  Date offsets are resolved by pandas on the Python side; regex/random.sample/isinstance are parameters.  Known findings: include_no_data=True also disables the price>0 filter (6 algos) and lets names outside the universe through (3 algos).",
            "DESIGN 7 C14"),
    "C15": ("Theorems (Lean 4, any linearly ordered field; sqrt only through the assumption sqrt(x)>=0, sqrt(x)^2=x, instantiated at the reals) about an executable model of the weighting algos: equal weights sum to one; specified weights are handed out as a copy; linear rescale; dated target row with missing dropped / False when the date is absent; LimitDeltas bound for every held or targeted name, untouched and clipped values; LimitWeights / ffn.limit_weights: cap respected whenever weights come out, recursion depth n+1 suffices, total preserved for positive weights summing to one, {} when infeasible; ffn.random_weights for all uniform draws and shuffles (bounds, total, {} when infeasible); inverse-volatility weights positive, sum one, weight x volatility constant; window exact and prefix-determined (no look-ahead); TargetVol scaling hits the target; PTE_Rebalance True iff tracking-error volatility above the cap.  ERC / mean-variance optimisers are external: bt's plumbing is modelled and compared, their outputs are checked at run time by Lean-defined predicates (runtime verification, not proof).  Every generated case runs the real algo on a real Strategy and the model through the driver; independent numpy monitors evaluate the documented relations.  Inside whole programs (C15_progw; complete backtests executed by the driver and compared bit for bit): the weights handed to Rebalance are the post-processing steps applied in stack order to the weigher's output (`progRunX_hands_post_weights`, `post_order`), with LimitWeights last every handed weight respects the cap and a feasible cap keeps the total (`limitWeights_last`, `equally_limitWeights`), ScaleWeights last scales name by name and in total, LimitDeltas last keeps every iterated name within its limit of the child's weight on the refreshed tree, a closed gate or a selector answering False leaves the world unchanged (`progRunX_idle`).  Known findings: LimitWeights NaN on zero-sum below-cap weights, TargetVol frozen per-name dict, ledoit-wolf branches of TargetVol/PTE_Rebalance always raise.",
            "DESIGN 7 C15"),
    "C10": ("42 theorems on the engine model (operations return Except Err): each enumerated ill-formed class returns its specific error (NaN price / NaN coupon on an open position, "
            "allocate at a missing or zero price, zero return base for both index formulas, custom price without bid/offer, parentless security; transact at a NaN price is an explicit "
            "NanData error in the model where the code books NaN), errors propagate through any tree (sound and complete certificate `update_raises_iff_certificate`), an update can only "
            "raise one of the enumerated errors, and well-formed securities/trees/trades complete (exact iff-characterisations; allocate only for flat-fee or fractional proportional costs: "
            "partial, the sizing search does raise on sane commissions - known findings with Lean witnesses). The runtime half (installed pandas/numpy, report accessors, finiteness) is "
            "carried by the run: generated well-formed backtests incl. fixed-income programs with every report accessor, every variant of every ill-formed class, and ok/which-error agreement "
            "of the model with the code on an ill-formed stream of engine histories. Setup-time classes (duplicate tickers, FI child under MV parent) are monitored, not modelled.",
            "DESIGN 7 C10"),
    "C17": ("16 theorems: notional by security kind (plain = value, fixed-income/coupon = position, hedge kinds = 0 with zero-filled rows), coupon = position x coupon and long/short holding "
            "cost on the absolute position with capital = coupon - cost, NaN coupon on an open position raises, parked cash is swept into the parent exactly once on the next date (any "
            "children list), strategy notional = sum |child notional| over visited children with hedges excluded, fixed-income weights = notional / N, the additive index in all four "
            "branches and at the first update of a date, rebalance of a fixed-income parent reduces to transact/allocate of weight*base - weight_c*N and reaches weight*base from a balanced "
            "state, all at every depth of any tree. Step correspondence on fixed-income histories (C17 footprint); monitors: notional by kind, carry rows, ledger, additive index, "
            "SetNotional-scaled targets right after Rebalance in generated FixedIncomeStrategy backtests.",
            "DESIGN 7 C17"),
    "C06": ("17 theorems about `algoRebalance` (the Rebalance algo as a composition of engine operations) and its parts: opRebalance reduces to the allocation (weight - current weight) x base "
            "(fixed income: weight x base - weight_c x notional by transact/allocate), a fractional cost-free security allocation trades exactly amount/(price x mult), one rebalance + update "
            "brings a security child at any depth to weight x base, the whole algo on a flat strategy (any number of children and targets, induction over both loops) leaves every target at "
            "(1-cash) x w, closes every non-target above TOL and keeps cash = V - sum of targets (partial: one level, fractional, no costs, TargetExact), sub-strategy targets receive and spread "
            "capital by child weight (any tree), whole-unit targets are within one unit's value, RebalanceOverTime's schedule reaches the target in n equal steps; Lean witnesses of the "
            "zero-value non-target that stays open (known finding) and of a target whose quantity is below TOL. Fragment C06_costs (the 'within one trading unit plus costs' half and nesting): "
            "`Rebalance_within_costs` (any commission function, any spreads, fractional: each target ends within the cost booked for its own trade, up to the isclose exit of the sizing search; "
            "total' = total - costs), `Rebalance_within_unit_plus_costs` / `Rebalance_unit_bound` (whole units), `Rebalance_at_path` / `Rebalance_exact_at_path` (any path of any tree), "
            "`Rebalance_substrategy_targets`, `Rebalance_from_stale`; Lean witness that a flat fee can swallow a small target. Correspondence: the real Rebalance call re-executed by the model from "
            "the real pre-state on random prior portfolios; monitor: target weights, closed non-targets, cash remainder, sub-strategy spreading, n-step variant. "
            "Inside whole programs (C06_progw, C06_progs; executed end to end by the driver and compared bit for bit with real backtests, requests wholerunx / wholeruns): a stack with SetCash(c) is the same "
            "stack with ScaleWeights(1-c) last (`progRunX_cash_eq_scale`, `rebalance_cash_is_scale`), RebalanceOverTime(n) hands cur + (w - cur)/n (`overTime_last`), and for run_always(RebalanceOverTime) with the "
            "algo object's memory threaded through the run: fresh weights re-arm it, an idle day trades only when armed, an armed call refreshes, hands cur + (w - cur)/left and counts down, with one period left "
            "the handed weights are the remembered target itself, the target is held through k further calls and dropped after k+1 (`rot_*`), and a memoryless program is the lifted `simRunG` (`memoryless_instance`).",
            "DESIGN 7 C06"),
    "C04": ("Theorems (Bt.C04, ~60) over the engine and run-level model: truncating every supplied data column after row t commutes with every engine operation executed at a clock <= t "
            "(`secUpdate_trunc` ... `updRoot_trunc` incl. the bankruptcy branch, all seven public operations and every getter's refresh under the clock invariant `ClockLE`, which every public "
            "call preserves), hence with the loop of Backtest.run over dates <= t for every causal algo function (`btLoop_trunc`, `btRun_trunc`); `Causal` is closed under identity, sequencing, "
            "every public operation with arguments computed from the data-free part of the world, the Rebalance model, and algos that use supplied frames only through prefix-determined results "
            "(`causalWith_of_factor`; worked instances SelectAll->WeighEqually->Rebalance via C14 `selectAll_no_lookahead` and WeighInvVol(lookback, lag)->Rebalance via C15 "
            "`window_prefix_determined`); every public call made at clocks in P writes recorded rows only at indices in P (`public_rows_frozen`); main theorem `backtest_causal`: two data sets "
            "agreeing on rows <= t, any later data, causal public algos -> all 14 recorded row lists of every node agree at every index <= t (also for two algo functions / two signal frames "
            "agreeing up to t, and: if the prefix raises on one data set it raises the same error on the other); Lean witness that an algo reading row d+1 is not causal. "
            "Correspondence: the model is handed the data TRUNCATED at the clock of each step and must reproduce the real post-state (run-steps and btday protocols on generated backtests, "
            "nested and fixed-income), the window protocols of C14/C15, whole-run. Deciding monitor: metamorphic twin runs of the real code - every supplied value dated after a random cut "
            "perturbed (NaN, x10, flip, random, dropped rows), all node histories up to the cut bit-identical, over every stock algo of the generator incl. those not modelled in Lean. "
            "Blotter-driven programs (ReplayTransactions / SimulateRFQTransactions; C04_blotter): the rows a call picks are a mask over the whole frame - select_causal (two frames agreeing on the rows stamped "
            "up to the cut, in any order and with anything after it, hand the same rows in the same order to every call dated up to the cut), select_sublist / select_perm (frame order kept, which rows "
            "are picked does not depend on it), window_disjoint + window_covers (on an increasing timeline every row stamped inside the run is executed by exactly one call), blotter_replay_causal "
            "(the whole replay up to the cut); correspondence `blotter`: every transact of real runs over chronological / security-by-security / reversed / shuffled frames with rows stamped between data "
            "dates is the model's pick, in order; twin runs perturb or drop the rows after the cut.",
            "DESIGN 7 C04"),
    "C11": ("11 theorems about the run-level model (Bt/Engine/Backtest.lean): Backtest.run with its has_run guard is idempotent (`run_idem`), a finished backtest is never "
            "touched again, the flag is set also when the run raised, constructor arguments are kept; for every session - any number of backtests deep-copied from one template, any "
            "interleaving of constructions and (repeated) runs, any algo function - the template is unchanged (`template_untouched`), every backtest ends as its freshly constructed self "
            "or as that self run alone (`session_isolated`), runs of different backtests commute, running twice is running once, construction commutes with runs. Partial by nature: object "
            "aliasing, interpreter hashing and global random state are not expressible in a value-semantics model; that the implementation IS this pure function is what the run decides: "
            "`session` protocol (random schedules on the real code vs the model's has_run flags, set-up counts, comparison with the backtest run alone), twin runs in all orders and "
            "interleavings, deep structural comparison of template and input frames before/after, re-run spy, fresh interpreters with PYTHONHASHSEED in {0,1,2,random}. The universe column "
            "order (the repaired hash-order defect) is a function of the inputs only.",
            "DESIGN 7 C11"),
    "C09": ("17 theorems about the run-level model (Bt/Engine/Backtest.lean: btDay = loop body of Backtest.run, btRun, paperStep/paperUpdates = the stepping of a sub-strategy's shadow "
            "copy inside StrategyBase.update, clockDates): for EVERY sequence of update(date) calls a child receives (any repetitions) the shadow copy ends where the stand-alone loop over the "
            "child's clock dates ends, incl. raising the same error (`paperUpdates_eq_clock`); it is independent of anything done to the real child (`paper_indep_of_child`, any interleaving of "
            "updates with arbitrary operations, any state type); on the synthetic first row a calendar-gated stack leaves the tree unchanged (`gated_stack_noop`, via C12 `index0_false` and "
            "C13's stack semantics) so `btDay = updRoot` there (`synthetic_row_noop`, via C08 idempotence); main theorem `paper_eq_standalone`: shadow copy = btRun of the same definition, "
            "same data, same capital, as Except values; `child_index_eq` date for date (price and recorded price rows at every prefix); `child_price_is_paper_price` (what the parent reads "
            "and what is recorded is the shadow copy's price, no circularity); Lean witnesses that an ungated head (RunOnce-like) does differ - the property's documented out-of-scope case. "
            "Correspondence: `btday` (every day of the loop for the backtest's root and every shadow copy re-executed by btDay from the real pre-state: run/no-run decision and both updates, "
            "bit-exact), `paperseq` (dates on which the real shadow copy was stepped vs clockDates over the real call sequence with all its repetitions); monitor: nested vs stand-alone "
            "index and the parent's universe column, bit for bit, over generated parents / funding schedules / bankrupt shadow copies.",
            "DESIGN 7 C09"),
    "C16": ("~75 theorems in three fragments (Bt.C16). Detected: `flag_iff_trigger` - root.update sets the flag exactly when the total it computes is < 0 for a market-value root beyond TOL "
            "(`nonneg_never_flags`, `fi_never_flags`, `negative_flags`), every public operation, every finite sequence of them and the whole Backtest loop keep every sub-strategy flag, every "
            "fixed_income field and the tree shape (`run_preserves_sub_flags`, `btLoop_sub_flags`), the root flag is monotone and changes only inside an executed root update whose trigger held "
            "(`btLoop_flag_iff`, trace form; Lean witness that a refreshing read on a stale tree can be that update). Clean: `bankrupt_flat` - after the liquidating update every security of the "
            "whole tree, any depth, is flat and the position row of the date records 0 (hypotheses forced by the proof and documented: no zero-marked open position, no dust position/weight; "
            "Lean witnesses that a zero-priced position and a dust weight do survive), `flatten_flat`, positions elsewhere untouched. Terminal: `bankrupt_no_run` / `bankrupt_run_irrelevant` - "
            "once flagged the loop never applies the algos, `bankrupt_terminal` - positions stay 0, every strategy's cash and the root value are constant and recorded as such on every later date; "
            "`terminal_after_liquidation_next` - cash changes at most once more, by the carry parked on the bankruptcy date; glue `bankruptcy_detected_clean_terminal`. Lean witnesses of two TOL corners "
            "(value not rewritten within TOL on the bankruptcy date; zero-base return on the next date). Correspondence: step protocol on leveraged histories and on market-value roots holding "
            "coupon-paying securities, run-steps and btday on leveraged programs (run / no-run decision per day, bit-exact). Monitors: flag vs an independently recomputed total on every update, "
            "positions / value / cash after the bankruptcy date, spy algo call log, sub-strategies and FI roots never flagged.",
            "DESIGN 7 C16"),
    "C18": ("25 theorems (Lean 4, any linearly ordered field, snapshots of any tree with the root first, runs of any length) about an executable model of the report functions as the code computes them (Backtest.weights / security_weights / positions / herfindahl_index / turnover, StrategyBase.positions / outlays / get_transactions, Result.prices) and of ReplayTransactions: weights = value (notional under a fixed-income root) over the root's; aggregation of same-named securities is a per-name sum, one column per name, invariant under permutation of the members; given the C01 balance identity of a date as hypothesis, aggregated security weights + all strategies' cash fractions = 1 for a non-zero root value; positions aggregate per ticker; the listed quantities of a ticker telescope to its recorded aggregated position on every date of every run, every row is non-zero; listed price = market price + (sum over the securities of that name of bid/offer paid / multiplier) / net quantity, = outlay / (quantity x multiplier) = price +/- half spread for a date's only trade of the ticker (any multiplier, any number of same-named securities); turnover = min(purchases, sales) / root VALUE with outlays aggregated per ticker first, 0 without securities; HHI = sum of squared aggregated weights; Result price series = the root's _prices rows. Replay: replay_reproduces_positions (every run whose replay completes: positions = recorded aggregated positions, composed with `transactions`); replay_day_reproduces + replay_reproduces_partial (induction over dates): with at most one trade per security and date, a non-zero multiplier and a commission that does not change on the spread-inclusive price, replaying the rows listedRow(trade) in the list's order reproduces positions and cash (hence values) after every date, whatever the execution order; partial: for cash/values the rows are tied to get_transactions per row (txnRow_of_single_trade), not composed into one statement about `transactions` of recorded histories. Lean witnesses (decide over Q) of the general replay statement failing (same-date round trip vanishing from the list, price-dependent commission with a spread) and of the three repaired formulas (explicitly named old formulas). Correspondence `report`: whole generated backtests (flat/nested, shared tickers, fixed-income roots with the five security classes, multipliers, commissions, spreads, no-trade runs, same-date round trips, flows) run on the real code; node histories read from the private series, sent to the model as bit patterns; every real report compared cell by cell (so far all bit-identical). Correspondence `replay`: the real replaying backtest's cash/positions/values vs the model of the algo. Monitor written from the property text (numpy + external trade logs of both runs): every clause incl. sum-to-one, cumulated quantities vs recorded positions per ticker and per security node vs executed trades, prices = executed cash / (quantity x multiplier), and a second real backtest replaying the list; a value difference is keyed by its cause read off the cash each (ticker, date) took in the two runs. Known findings: C18/replay-values:round-trip, :split-trades, :spread-and-price-commission.",
            "DESIGN 7 C18"),
    "C20": ("20 theorems (Lean 4, any linearly ordered field, NaN as Option, every tree / table / number of measures, instruments and dates) about an executable model of UpdateRisk, HedgeRisks, ClosePositionsAfterDates, RollPositionsAfterDates and SelectActive with the engine calls they make (transact into existing / lazy / default children, close under fixed-income and market-value parents): a security's risk is unit x position x multiplier (0 when is_zero(position), NaN cell -> NaN, no column -> 0, missing date raises); a strategy's risk is the sum over its children and, by tree induction with a locality lemma, over all securities below every node; every call succeeds whatever attributes earlier calls of any depth left behind and writes the row of the CURRENT date (the root's clock) of every node at depth < history, leaves deeper nodes' frames alone and keeps earlier rows (update_risk_total, risk_history_depth); the Jacobian handed to numpy is unit risk x instrument multiplier (hedge_jacobian); hedge_zero: k measures, k instruments of arbitrary multipliers, Mathlib matrices, S*Sinv = 1 as run-time-checked certificate, stored risk fresh, no dust => a fresh UpdateRisk of every hedged measure stores exactly 0 (plus the multiplier-1 corollary and a Lean witness of what the pre-repair unscaled matrix left: -810/-270); hedge_pinv_partial for arbitrary multipliers (normal equations, least squares and minimal notionals; partial only in that the four Penrose identities of numpy's pinv are hypotheses, checked at run time); close_after_date and roll_once by induction over any number of later dates of the lifecycle stack (recorded, flat, never returned by SelectActive, never a roll candidate again, provided nothing rolls into the name), roll_moves (sources flat and recorded, factor x position aggregated per target, targets credited once), roll_chain (a name that matures in the same call as the names rolling into it ends up holding exactly what they rolled in, computed from the positions before the call, whatever the order of the children); Lean witnesses of the two remaining known findings (a security past its close date that is not yet a child is re-selected; a zero-priced security is not closed under a market-value parent).  Every tapped call of the real algos inside real stacks (manual setup/update/run loops and bt.Backtest runs on generated trees, time-varying tables, schedules, HedgeRisks(strategy=sibling); ill-formed stream for the raising branches) is re-executed by the model from the real pre-state (positions exact, numpy-dependent hedge notionals 1e-9, whole lifecycle runs through lifecycleRun) and judged by a monitor that recomputes the property text from positions, tables and multipliers (fresh UpdateRisk and independent recomputation, numpy lstsq on the true sensitivity matrix, end-of-day positions on every later date); the witnesses of the three repaired defects (hedge multiplier, history row date, differing history depths) run first as regression cases.",
            "DESIGN 7 C20"),
    "C19": ("13 theorems about an executable model of tree assembly (Bt.Wiring: strings, the five security classes with lazy_add, strategies with list/dict children to any depth, children attached later with parent=, use_integer_positions / set_commissions anywhere, setup, update, first use, setup_from_parent; object references modelled relative to the structure), for ALL construction scripts: realised sibling names pairwise distinct and the exact conditions under which _add_children / parent= raise; every member's full_name = >-joined structural path, parent pointer = structural parent, root pointer = top, members = structural pre-order with every node once; use_integer_positions reaches every member and every node of every shadow copy (_paper), set_commissions every strategy incl. those of shadow copies (securities are charged by their parent; the code pushes to strategies only), the integer flag stays uniform over the whole tree, shadow copies included, under every later operation (lazily created and late-attached children, setup, updates); universe columns after setup = declared tickers in the data, in data order (all data columns when constructed without children), then one column per sub-strategy - every sub-strategy has its column right after setup (closed form for well-formed names), an update adds nothing unless a child was attached after setup; a child attached after setup gets the parent's ORIGINAL data, a shadow copy and exactly one new parent column; lazy = eager: after setup, any number of updates and first use, a security taken from the lazy pool is field for field the one constructed up front and the parent's own data are equal, only the sibling position (and shadow copies made at setup) differ (node-local statement at any depth; hypothesis: declared name not shared with a sub-strategy). Correspondence: generated scripts executed on the real objects incl. bt.Backtest and compared token for token with the model (structure, names, full names, parent/root identity, members order, pools, ticker lists, universe columns in order, flags, commission identity per node, shadow copies, now/_needupdate, error or not), ill-formed stream (all duplicate pairs, late duplicates, fixed-income child under a plain parent); eager twins of every script and lazy / eager / lazy_add / dict / children-omitted variants of whole generated backtests compared per node name (positions exact when whole units, otherwise and values/prices 1e-9 relative). Independent monitor from the property text incl. universe sub-strategy column = child price series and settings on lazily created children and shadow copies after a run. Partial: whole-run equality of histories is monitored, not proved (the engine model carries it); security setup errors (coupons) are assumed away. Three defects found by this check are repaired in /repo (eeb6870, 75f3a49, 11b9598; their witnesses run first as regression cases). Known findings: a strategy attached after set_commissions does not inherit the commission function (design decision); flatten of a position-free sub-strategy marks the root stale only when its securities were constructed up front, so lazy and eager runs can differ by ~4e-5 (key assigned only when re-running with those stale flags taken back reproduces the lazy run).",
            "DESIGN 7 C19"),
}
# pid -> reason it is not claimed (yet)
NOT_YET = {}
# slices merged but not yet claimed (being brought in line with a repair)
HOLD = set()


def main():
    props = [json.loads(l) for l in open(os.path.join(HERE, "properties.jsonl"))]
    checks = []
    na = []
    for p in props:
        pid = p["id"]
        ready = os.path.exists(os.path.join(HERE, "lean", "Bt", "Props", pid + ".lean")) and os.path.exists(os.path.join(HERE, "harness", "props", pid + ".py"))
        if pid in CLAIMED and ready and pid not in HOLD:
            text, ref = CLAIMED[pid]
            checks.append({
                "property_id": pid,
                "quick_cmd": "./check %s --tier quick" % pid,
                "thorough_cmd": "./check %s --tier thorough" % pid,
                "evidence_file": "evidence/%s.json" % pid,
                "replay_cmd_template": "/venv/bin/python harness/replay.py {path}",
                "engine": "lean-model+correspondence",
                "level_claimed": {"category": "proof", "text": text, "design_ref": ref},
                "level_note": NOTE,
                "technique": TECH,
            })
        else:
            na.append({"property_id": pid, "reason": NOT_YET.get(pid, "check not built yet in this round (work in progress; DESIGN.md section 7 has the plan)")})
    m = {
        "version": 1,
        "setup_cmd": "cd lean && lake build Bt btdriver && cd .. && /venv/bin/python -m harness.selftest",
        "hooks": {"guard": "BT_VERIF", "enable": "no hooks are needed: the harness reads private attributes from outside",
                  "baseline_off_cmd": "cd /repo && /venv/bin/python -m pytest -q -p no:cacheprovider --timeout=900",
                  "source_commits": [], "add_only": True},
        "engines": [{"name": "lean-model+correspondence", "path": "lean/ harness/", "serves_properties": sorted(CLAIMED),
                     "kind_free_text": "Lean 4 library Bt (model + theorems), native driver btdriver, Python harness running the real bt from /repo's working tree"}],
        "checks": checks,
        "not_applicable": na,
        "notes": "fix commits in /repo are listed in known_findings.json (status fixed).",
    }
    with open(os.path.join(HERE, "MANIFEST.json"), "w") as f:
        json.dump(m, f, indent=1)


if __name__ == "__main__":
    main()
