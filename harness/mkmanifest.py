"""Writes MANIFEST.json from the tables below (kept in one place so it is always schema-valid)."""
import json
import os

HERE = os.path.dirname(os.path.dirname(os.path.abspath(__file__)))
TECH = "Lean 4 theorems over an executable model + differential correspondence of that model with the real code + monitors as failing-input search"
NOTE = ("Trusted: Lean kernel (axioms propext, Classical.choice, Quot.sound only; no sorry/native_decide), the hand-written model being faithful "
        "(checked by the correspondence run, on generated inputs only), exact-arithmetic theorems vs IEEE doubles, harness code.")

# pid -> (level text, design ref)
CLAIMED = {
    "C01": ("Theorems (Lean 4, any linearly ordered field) about the engine model's update: a marked security carries position*price*multiplier, "
            "NaN price with an open position raises, strategy value = cash + children, weights = value/parent value; "
            "the model is re-run from the real pre-state on every generated step and compared inside the C01 footprint "
            "(value, notional, weight, position, rows, flags); a monitor recomputes the identity from public getters at recorded observation points.",
            "DESIGN 7 C01"),
    "C05": ("30 theorems about the model of SecurityBase.allocate (allocQ0, sizeLoop with the code's 10^4 cap as fuel, allocQuantity, secAllocate): zero amount / bad price / "
            "close-out, exit characterisation of the sizing search for every fuel and outlay function, integrality and maximality under a strictly monotone outlay, "
            "fractional exactness, budget with the isclose tolerance, no-raise for flat-fee and fractional per-unit/proportional costs (partial), and Lean witnesses over Q of "
            "the inputs on which the current code breaks the budget rule (known findings) or raises; every allocate of a dense generated sweep is re-executed by the model from "
            "the real pre-state (bit-exact) and a monitor checks budget, maximality, close-out, zero and refusal on the real objects.",
            "DESIGN 7 C05"),
}
# pid -> reason it is not claimed (yet)
NOT_YET = {}


def main():
    props = [json.loads(l) for l in open(os.path.join(HERE, "properties.jsonl"))]
    checks = []
    na = []
    for p in props:
        pid = p["id"]
        if pid in CLAIMED:
            text, ref = CLAIMED[pid]
            checks.append({
                "property_id": pid,
                "quick_cmd": "./check %s --tier quick" % pid,
                "thorough_cmd": "./check %s --tier thorough" % pid,
                "evidence_file": "evidence/%s.json" % pid,
                "replay_cmd_template": "/venv/bin/python harness/replay.py {path}",
                "engine": "lean-model+correspondence",
                "level_claimed": {"category": "proof", "text": text, "design_ref": ref},
                "level_note": NOTE,
                "technique": TECH,
            })
        else:
            na.append({"property_id": pid, "reason": NOT_YET.get(pid, "check not built yet in this round (work in progress; DESIGN.md section 7 has the plan)")})
    m = {
        "version": 1,
        "setup_cmd": "cd lean && lake build Bt btdriver && cd .. && /venv/bin/python -m harness.selftest",
        "hooks": {"guard": "BT_VERIF", "enable": "no hooks are needed: the harness reads private attributes from outside",
                  "baseline_off_cmd": "cd /repo && /venv/bin/python -m pytest -q -p no:cacheprovider --timeout=900",
                  "source_commits": [], "add_only": True},
        "engines": [{"name": "lean-model+correspondence", "path": "lean/ harness/", "serves_properties": sorted(CLAIMED),
                     "kind_free_text": "Lean 4 library Bt (model + theorems), native driver btdriver, Python harness running the real bt from /repo's working tree"}],
        "checks": checks,
        "not_applicable": na,
        "notes": "fix commits in /repo are listed in known_findings.json (status fixed).",
    }
    with open(os.path.join(HERE, "MANIFEST.json"), "w") as f:
        json.dump(m, f, indent=1)


if __name__ == "__main__":
    main()
