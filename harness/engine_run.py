"""Run generated engine histories on the real code, feed every step to the Lean model, compare inside a
property's footprint, and let the property's monitors observe the real objects."""
import copy
import re

from . import engine as E
from . import gen_engine as G
from . import leanrun


class Observer:
    """monitor interface: observes the real tree during a history"""

    def start(self, bt, spec, root, dates):
        pass

    def after(self, bt, spec, root, dates, step, i):
        pass

    def observe(self, bt, spec, target, dates, step, i):
        """a recorded observation point: `target` is the real tree or a deep copy of it; `step` is the last
        executed mutating step (step["pending"]: update=False mutations not yet covered by an update)"""
        pass

    def finish(self, bt, spec, root, dates, steps):
        pass


def tree_shape(t):
    if "sec" in t:
        return "k%d" % t["kind"]
    return "(" + ("F" if t["fi"] else "M") + "".join(sorted(tree_shape(k) for k in t["kids"])) + ")"


def run_history_observed(bt, spec, rng, nops, observers, ctx=None, key_prefix=""):
    """like gen_engine.run_history but calls the observers; violations raised by observers are
    recorded on ctx with the spec (ops included) as replay data"""
    root, dates = G.build(bt, spec)
    T = spec["T"]
    ops = spec.get("ops")
    gen = ops is None
    if gen:
        ops = []
        spec["ops"] = ops
    steps = []
    for ob in observers:
        ob.start(bt, spec, root, dates)
    d = 0
    i = 0
    observed_last = True
    closed = False
    pending = False   # mutations made with update=False that no update / stale mark has covered yet
    while True:
        if gen:
            if i == 0:
                op = {"op": "adjust", "path": [], "amount": spec["capital"], "update": True, "flow": True}
            elif i == 1:
                op = {"op": "update", "d": 0}
            elif i >= nops:
                if (root.stale or pending) and not closed:
                    closed = True
                    op = {"op": "update", "d": d}   # closing update, as Backtest.run does
                    ops.append(op)
                else:
                    break
            elif steps and steps[-1]["op"]["op"] not in ("read",) and not observed_last and rng.random() < 0.45:
                op = {"op": "observe", "on": "real" if rng.random() < 0.75 else "copy"}
            else:
                op = G.gen_op(rng, spec, root, d, T)
                if op["op"] == "update" and op["d"] != d and (root.stale or pending):
                    op = {"op": "update", "d": d}   # a date is closed by an update before the clock moves
            if not closed:
                ops.append(op)
        else:
            if i >= len(ops):
                break
            op = ops[i]
        if op["op"] == "observe":
            observed_last = True
            if steps:
                target = root if op["on"] == "real" else copy.deepcopy(root)
                was_stale = root.stale
                try:
                    target.value   # the refresh a user's read would trigger
                except Exception as e:  # noqa  (ill-formed state: the refresh raises; the tree is unusable afterwards)
                    if ctx is not None:
                        ctx.count("observe-refresh-raised:" + E.classify_exc(e))
                    if op["on"] == "real":
                        break
                    i += 1
                    continue
                for ob in observers:
                    ob.observe(bt, spec, target, dates, steps[-1], i)
                if op["on"] == "real" and was_stale and not root.stale:
                    pending = False
            i += 1
            continue
        observed_last = False
        pre = E.snap_world(bt, root)
        try:
            E.exec_op(bt, root, dates, op)
        except Exception as e:  # noqa
            steps.append({"pre": pre, "op": op, "err": E.classify_exc(e), "msg": str(e)[:200], "opi": i, "pending": pending})
            break
        post = E.snap_world(bt, root)
        E.fill_paper(pre["root"], post["root"])
        if op["op"] == "update" or post["stale"]:
            pending = False
        elif op["op"] != "read" and op.get("update") is False:
            pending = True
        elif op["op"] == "read" and not post["stale"] and pre["stale"]:
            pending = False
        st = {"pre": pre, "op": op, "post": post, "pending": pending, "opi": i}
        steps.append(st)
        if op["op"] == "update":
            d = op["d"]
        for ob in observers:
            ob.after(bt, spec, root, dates, st, i)
        i += 1
    for ob in observers:
        ob.finish(bt, spec, root, dates, steps)
    return steps, root, dates


def truncate_data(world, t):
    """copy of a snapshot with every supplied data column of every security cut after row t (what `World.trunc t` does)"""
    import copy as _copy
    w = _copy.deepcopy(world)

    def rec(n):
        if n["t"] == "S":
            for k in ("prices", "bidoffers", "coupons", "costLong", "costShort"):
                if n.get(k) is not None:
                    n[k] = n[k][:t + 1]
        for c in n.get("kids", []):
            rec(c)
    rec(w["root"])
    return w


def model_compare(ctx, bt, batch, footprint_fields=None, footprint_ops=None, corr_name="step", trunc=False):
    """batch: list of (spec, step_index, step).  Sends the steps to the Lean driver and records disagreements
    inside the footprint.  Returns (n_compared, n_disagree)."""
    cfg = E.live_cfg(bt)
    lines = []
    meta = []
    for spec, i, st in batch:
        if footprint_ops is not None and st["op"]["op"] not in footprint_ops:
            continue
        if E.has_nan_state(st["pre"]):
            ctx.count("skipped:nan-pre-state")
            continue
        if "err" in st and st["err"].startswith("PaperRun"):
            ctx.count("skipped:error-inside-paper-copy")
            continue
        if st["pre"]["root"]["comm"] is None:
            ctx.count("skipped:unknown-commission-fn")
            continue
        pre, op = st["pre"], st["op"]
        if trunc:
            # no look-ahead: the model sees the supplied data only up to the clock of the step
            t = op["d"] if op["op"] in ("update", "btday", "paperday") else pre["root"]["now"]
            if t is None:
                continue
            pre = truncate_data(pre, t)
            if op["op"] in ("btday", "paperday") and op.get("w2") is not None:
                op = dict(op)
                op["w2"] = truncate_data(op["w2"], t)
            ctx.count("truncated-steps")
        lines.append(E.step_line(cfg, pre, op))
        meta.append((spec, i, st))
    outs = leanrun.run_lines(lines)
    nd = 0
    nbit = 0
    nfl = 0
    for (spec, i, st), o in zip(meta, outs):
        tag, val = E.parse_answer(o)
        opk = st["op"]["op"]
        detail = None
        if tag == "bad":
            detail = {"kind": "driver-rejected", "answer": val[:200]}
        elif "err" in st:
            ctx.count("real-raises:" + st["err"])
            if not (tag == "err" and val == st["err"]):
                detail = {"kind": "error-kind", "real": st["err"], "msg": st.get("msg"), "model": (val if tag == "err" else "ok")}
        elif tag == "err":
            if val == "NanData" and E.has_nan_state(st["post"]):
                ctx.count("nan-poison-agreed")
            else:
                detail = {"kind": "model-raises", "model": val, "real": "ok"}
        else:
            c = E.cmp_world(st["post"], val)
            nbit += c.nbit
            nfl += c.nfloat
            diffs = c.diffs
            if footprint_fields is not None:
                diffs = [d for d in diffs if re.sub(r"\[\d+\]$", "", d["field"]) in footprint_fields]
            if diffs:
                detail = {"kind": "state", "diffs": diffs[:6]}
        ctx.count("model-step:" + opk)
        if "post" in st and st["post"]["root"]["bankrupt"] and not st["pre"]["root"]["bankrupt"]:
            ctx.count("model-step:bankruptcy-triggered")
        if detail is not None:
            nd += 1
            detail["op"] = st["op"]
            detail["step_index"] = i
            ctx.disagreement("corr:%s:%s:%s" % (corr_name, opk, (detail.get("diffs") or [{}])[0].get("field", detail["kind"])),
                             detail, {"spec": spec, "step_index": i})
    ctx.count("floats-compared", nfl)
    ctx.count("floats-bit-identical", nbit)
    return len(meta), nd


def run_engine_protocol(ctx, bt, n_hist, observers, footprint_fields=None, footprint_ops=None,
                        spec_kwargs=None, spec_mutator=None, corr_name="step", nops=(8, 36), corpus=()):
    batch = []
    specs = list(corpus)
    for h in range(n_hist):
        specs.append(None)
    for sp in specs:
        if sp is None:
            spec = G.gen_spec(ctx.rng, ctx.tier, **(spec_kwargs or {}))
            if spec_mutator:
                spec_mutator(ctx.rng, spec)
            elif ctx.rng.random() < 0.25:
                G.scripted_hold(ctx.rng, spec)
                ctx.count("histories:scripted-hold")
        else:
            spec = copy.deepcopy(sp)
        n = ctx.rng.randint(*nops)
        steps, root, dates = run_history_observed(bt, spec, ctx.rng, n, observers, ctx)
        ctx.evaluations += 1
        shape = tree_shape(spec["tree"])
        ctx.count("histories")
        ctx.count("steps", len(steps))
        for i, st in enumerate(steps):
            batch.append((spec, i, st))
            ctx.classes.add((shape, st["op"]["op"], "err" if "err" in st else "ok", spec["integer"], spec["comm"][0]))
        if len(ctx.samples) < 2:
            ctx.sample({"tree": spec["tree"], "grid": spec["grid"], "integer": spec["integer"], "comm": spec["comm"],
                        "ops": spec["ops"][:12]})
    n, nd = model_compare(ctx, bt, batch, footprint_fields, footprint_ops, corr_name)
    ctx.protocols.append((corr_name, n, nd))
    return batch


def continuation_search(ctx, bt, make_observers, max_cases=12, extra_random=3):
    """Failing-input search in the neighbourhood of the steps on which model and implementation disagree:
    the history prefix up to the disagreeing step is replayed on the real code and continued with a small
    library of follow-ups (undo the trade back to the last recorded position, repeat, close, closing update,
    next date, a few random operations); the property's monitors observe each continuation."""
    tried = 0
    seen = set()
    for dg in list(ctx.disagreements):
        if tried >= max_cases or ctx.violations:
            break
        rd = dg["replay_data"]
        if not isinstance(rd, dict) or "spec" not in rd or "step_index" not in rd:
            continue
        spec0 = rd["spec"]
        # locate the op index of the disagreeing step
        key = (id(spec0), rd["step_index"])
        if key in seen:
            continue
        seen.add(key)
        try:
            base = copy.deepcopy({k: v for k, v in spec0.items()})
            steps, root, dates = run_history_observed(bt, copy.deepcopy(base), ctx.rng, len(base["ops"]), [], None)
        except Exception:
            continue
        if rd["step_index"] >= len(steps):
            continue
        st = steps[rd["step_index"]]
        opi = st["opi"]
        op = st["op"]
        prefix = base["ops"][: opi + 1]
        # state right after the disagreeing step (replay the prefix only)
        sp = copy.deepcopy(base)
        sp["ops"] = list(prefix)
        try:
            psteps, proot, pdates = run_history_observed(bt, sp, ctx.rng, len(prefix), [], None)
        except Exception:
            continue
        d = 0
        for s2 in psteps:
            if s2["op"]["op"] == "update" and "err" not in s2:
                d = s2["op"]["d"]
        T = base["T"]
        nxt = [{"op": "update", "d": d}] + ([{"op": "update", "d": d + 1}] if d + 1 < T else [])
        conts = [list(nxt)]
        path = op.get("path")
        if path is not None:
            try:
                node = E.node_at(proot, path)
            except Exception:
                node = None
            if node is not None and hasattr(node, "_last_pos"):
                back = node._last_pos - node._position
                if back != 0:
                    conts.append([{"op": "transact", "path": path, "q": back, "update": False, "price": None}] + nxt)
                    conts.append([{"op": "transact", "path": path, "q": back, "update": True, "price": None}] + nxt)
                if node._position != 0:
                    conts.append([{"op": "transact", "path": path, "q": -node._position, "update": True, "price": None}] + nxt)
                if node._value == node._value:
                    conts.append([{"op": "allocate", "path": path, "amount": -node._value, "update": True}] + nxt)
            if path:
                conts.append([{"op": "close", "path": path[:-1], "child": path[-1], "update": True}] + nxt)
            rep = dict(op)
            conts.append([rep] + nxt)
        for _ in range(extra_random):
            conts.append(None)
        for cont in conts:
            sp = copy.deepcopy(base)
            if cont is None:
                sp["ops"] = None
                sp2 = copy.deepcopy(base)
                sp2["ops"] = list(prefix)
                # random continuation: replay prefix then generate
                obs = make_observers()
                spx = copy.deepcopy(base)
                spx["ops"] = list(prefix)
                _continue_random(bt, spx, ctx, obs)
            else:
                sp["ops"] = list(prefix) + cont + [{"op": "observe", "on": "real"}]
                try:
                    run_history_observed(bt, sp, ctx.rng, len(sp["ops"]), make_observers(), ctx)
                except Exception:
                    ctx.count("search:continuation-crashed")
            ctx.count("search:continuations")
            tried += 1
            if ctx.violations:
                break


def _continue_random(bt, spec, ctx, observers, extra=10):
    """replay spec['ops'] then append `extra` generated operations (recorded into spec['ops'])"""
    prefix = list(spec["ops"])
    root, dates = G.build(bt, spec)
    # generate the tail on a scratch run, then replay everything with observers
    import random as _r
    rng = _r.Random(ctx.rng.random())
    d = 0
    tail = []
    try:
        for op in prefix:
            if op["op"] == "observe":
                continue
            E.exec_op(bt, root, dates, op)
            if op["op"] == "update":
                d = op["d"]
        for _ in range(extra):
            op = G.gen_op(rng, spec, root, d, spec["T"])
            if op["op"] == "update" and op["d"] != d and root.stale:
                op = {"op": "update", "d": d}
            tail.append(op)
            E.exec_op(bt, root, dates, op)
            if op["op"] == "update":
                d = op["d"]
    except Exception:
        pass
    spec["ops"] = prefix + tail + [{"op": "update", "d": d}, {"op": "observe", "on": "real"}]
    try:
        run_history_observed(bt, spec, ctx.rng, len(spec["ops"]), observers, ctx)
    except Exception:
        ctx.count("search:continuation-crashed")
