"""Generated whole backtests (`run` protocol): data, trees and algo programs as JSON-able specs,
built into real bt objects, with an external trade log (wrapping SecurityBase.transact from outside)."""
import contextlib

import numpy as np
import pandas as pd

from . import engine as E

TICKERS = ["aa", "bb", "cc", "dd", "ee"]


# ---------------------------------------------------------------- data
def gen_index(rng, T, kind=None):
    kind = kind or rng.choice(["D", "B", "B", "W", "sparse", "yearend"])
    if kind == "D":
        start = pd.Timestamp("2019-01-01") + pd.Timedelta(days=rng.randint(0, 700))
        idx = pd.date_range(start, periods=T, freq="D")
    elif kind == "B":
        start = pd.Timestamp("2018-06-01") + pd.Timedelta(days=rng.randint(0, 900))
        idx = pd.bdate_range(start, periods=T)
    elif kind == "W":
        start = pd.Timestamp("2019-01-04") + pd.Timedelta(days=7 * rng.randint(0, 60))
        idx = pd.date_range(start, periods=T, freq="7D")
    elif kind == "yearend":
        y = rng.choice([2012, 2015, 2019, 2020, 2024])
        start = pd.Timestamp("%d-12-%02d" % (y, rng.randint(12, 24)))
        idx = pd.bdate_range(start, periods=T)
    else:
        start = pd.Timestamp("2019-01-01") + pd.Timedelta(days=rng.randint(0, 300))
        days = sorted(rng.sample(range(0, T * 4), T))
        idx = pd.DatetimeIndex([start + pd.Timedelta(days=d) for d in days])
    return [str(d.date()) for d in idx], kind


def gen_paths(rng, tickers, T, grid, nan_rate=0.0, late=0.1, crash=False):
    cols = {}
    for t in tickers:
        if grid == "int":
            p = float(rng.randint(8, 80))
            path = []
            for _ in range(T):
                p = max(1.0, p + rng.randint(-3, 3))
                path.append(p)
        elif grid == "dyadic":
            p = rng.randint(64, 1600) / 16.0
            path = []
            for _ in range(T):
                p = max(0.0625, p + rng.randint(-32, 32) / 16.0)
                path.append(p)
        else:
            p = rng.uniform(5, 300)
            vol = rng.choice([0.005, 0.02, 0.05])
            path = []
            for _ in range(T):
                p = p * (1 + rng.gauss(0.0005, vol))
                path.append(p)
        if crash:
            k = rng.randint(2, T - 1)
            f = rng.choice([0.1, 0.25, 0.4, 3.0])
            path = [x if i < k else (float(max(1, int(x * f))) if grid == "int" else x * f) for i, x in enumerate(path)]
        path = [None if (i > 0 and rng.random() < nan_rate) else x for i, x in enumerate(path)]
        if rng.random() < late:
            k = rng.randint(1, max(1, T // 2))
            path = [None] * k + path[k:]
        cols[t] = path
    return cols


# ---------------------------------------------------------------- programs
def gen_stack(rng, tickers, dates, fi=False, allow_flow=True, calendar_only=False, depth=0):
    """list of algo descriptors [name, args...] forming one strategy's stack"""
    st = []
    ds = pd.DatetimeIndex(dates)
    gap = max([1] + [int((b - a).days) for a, b in zip(ds[:-1], ds[1:])])
    r = rng.random()
    if calendar_only:
        st.append([rng.choice(["RunDaily", "RunWeekly", "RunMonthly", "RunDaily"]), rng.random() < 0.8, rng.random() < 0.2, rng.random() < 0.2])
    elif r < 0.35:
        st.append(["RunDaily", True, False, False])
    elif r < 0.5:
        st.append(["RunWeekly", rng.random() < 0.8, rng.random() < 0.3, rng.random() < 0.2])
    elif r < 0.65:
        st.append(["RunMonthly", rng.random() < 0.8, rng.random() < 0.3, rng.random() < 0.2])
    elif r < 0.72:
        st.append(["RunOnce"])
    elif r < 0.85:
        st.append(["RunEveryNPeriods", rng.randint(1, 4), rng.randint(0, 2)])
    elif r < 0.92:
        st.append(["RunAfterDate", rng.choice(dates[: max(1, len(dates) // 2)])])
    else:
        st.append(["RunOnDate"] + sorted(rng.sample(dates, min(len(dates), rng.randint(1, 4)))))
    if allow_flow and rng.random() < 0.25:
        amt = float(rng.choice([-0.01, 0.002, 0.05, 0.25, -0.03]))   # fraction of the initial capital (resolved in gen_run_spec)
        st.insert(rng.randint(0, 1), ["CapitalFlow", amt])
    # selection
    r = rng.random()
    if r < 0.45:
        st.append(["SelectAll"])
    elif r < 0.6:
        st.append(["SelectThese", sorted(rng.sample(tickers, rng.randint(1, len(tickers))))])
    elif r < 0.7:
        st.append(["SelectHasData", gap * rng.randint(1, 4), rng.randint(1, 3)])
    elif r < 0.85:
        st.append(["SelectAll"])
        st.append(["SelectMomentum", rng.randint(1, max(1, len(tickers) - 1)), gap * rng.randint(1, 4), gap * rng.randint(0, 1)])
    elif r < 0.92:
        st.append(["SelectAll"])
        st.append(["SelectRandomly", rng.randint(1, len(tickers)), rng.randint(0, 10 ** 6)])
    elif r < 0.96:
        st.append(["SelectAll"])
        st.append(["SelectWhere", rng.randint(0, 10 ** 6)])
    else:
        st.append(["SelectAll"])
        st.append(["SetStatSelectN", rng.randint(0, 10 ** 6), rng.randint(1, max(1, len(tickers) - 1)), gap * rng.randint(0, 1), rng.random() < 0.5])
    if rng.random() < 0.12:
        st.append(["SelectActive"])
    # weights
    r = rng.random()
    if r < 0.4:
        st.append(["WeighEqually"])
    elif r < 0.6:
        ws = {}
        tot = 0.0
        for t in tickers:
            if rng.random() < 0.8:
                w = rng.choice([0.125, 0.25, 0.5, -0.25, 0.375, 0.0625])
                if tot + abs(w) <= 1.0:
                    ws[t] = w
                    tot += abs(w)
        if not ws:
            ws[tickers[0]] = 0.5
        st.append(["WeighSpecified", ws])
    elif r < 0.75:
        st.append(["WeighInvVol", gap * rng.randint(3, 6), gap * rng.randint(0, 1)])
    elif r < 0.85:
        st.append(["WeighRandomly", rng.randint(0, 10 ** 6)])
    else:
        st.append(["WeighTarget", rng.randint(0, 10 ** 6)])
    if rng.random() < 0.15 and st[-1][0] in ("WeighEqually", "WeighInvVol", "WeighRandomly"):
        st.append(["LimitWeights", rng.choice([0.4, 0.5, 0.6, 0.75])])
    if rng.random() < 0.12:
        st.append(["LimitDeltas", rng.choice([0.1, 0.25, 0.5])])
    if rng.random() < 0.1:
        st.append(["ScaleWeights", rng.choice([0.5, 0.75, 1.5, -0.5])])
    if rng.random() < 0.12 and not fi:
        st.append(["SetCash", rng.choice([0.25, 0.5, 0.125])])
    if fi:
        st.append(["SetNotionalConst", float(rng.choice([1000, 100000, 1000000]))])
    if rng.random() < 0.1 and not fi:
        st.append(["RebalanceOverTime", rng.randint(2, 4)])
    else:
        st.append(["Rebalance"])
    if rng.random() < 0.15:
        # user code at the end of the stack that calls the engine with update=False and leaves the closing update to Backtest.run
        st.append(["QuietOps", rng.randint(0, 10 ** 6), bool(allow_flow)])
    return st


def stack_follows_selection(st):
    """weights only for tickers that passed a tradability filter at `now`"""
    names = [d[0] for d in st]
    return any(n in names for n in ("WeighEqually", "WeighInvVol", "WeighRandomly")) and "SelectThese" not in names and "SelectWhere" not in names and "SetStatSelectN" not in names


def gen_run_spec(rng, nested=None, fi=False, grid=None, crash=False, calendar_children=True, T=None, ncols=None, wellformed=True):
    grid = grid or rng.choice(["int", "dyadic", "float", "float"])
    T = T or rng.randint(6, 22)
    n = ncols or rng.randint(2, 5)
    tickers = TICKERS[:n]
    dates, kind = gen_index(rng, T)
    if nested is None:
        nested = rng.random() < 0.35
    spec = {
        "dates": dates, "index_kind": kind, "grid": grid, "tickers": tickers,
        "prices": gen_paths(rng, tickers, T, grid, nan_rate=0.0 if wellformed else rng.choice([0, 0.03, 0.1]), late=0.0, crash=crash),
        "integer": rng.random() < 0.6,
        "comm": rng.choice([[0, 0, 0], [0, 0, 0], [2, 0, 0.0078125], [3, 0, 0.001], [3, 0, 0.0009765625], [5, 1.0, 0.001], [1, 2.0, 0]]),
        "capital": float(rng.choice([10000, 100000, 1000000, 1000000])),
        "bidoffer": None, "fi": fi,
    }
    if rng.random() < 0.3:
        spec["bidoffer"] = {t: [rng.choice([0.0, 0.125, 0.25]) if grid != "float" else rng.uniform(0, 0.2)] * T for t in tickers}
    if nested:
        kids = []
        k = rng.randint(1, 2)
        for i in range(k):
            sub_t = sorted(rng.sample(tickers, rng.randint(1, len(tickers))))
            kids.append({"name": "sub%d" % i, "tickers": sub_t,
                         "stack": gen_stack(rng, sub_t, dates, allow_flow=False, calendar_only=calendar_children)})
        own = sorted(rng.sample(tickers, rng.randint(0, max(0, len(tickers) - 1))))
        names = [c["name"] for c in kids] + own
        spec["tree"] = {"name": "top", "tickers": own, "kids": kids,
                        "stack": gen_stack(rng, names, dates)}
    else:
        declare = rng.random() < 0.5
        spec["tree"] = {"name": "top", "tickers": tickers if declare else None, "kids": [],
                        "stack": gen_stack(rng, tickers, dates, fi=fi)}
    # late listings only where every stack trades what a tradability filter selected
    stacks = [spec["tree"]["stack"]] + [k["stack"] for k in spec["tree"]["kids"]]
    for st in stacks:
        for d in st:
            if d[0] == "CapitalFlow" and abs(d[1]) < 1.0:
                d[1] = float(int(d[1] * spec["capital"]))
    if (not wellformed) or all(stack_follows_selection(st) for st in stacks):
        for t in tickers:
            if rng.random() < 0.25:
                k = rng.randint(1, max(1, T // 2))
                spec["prices"][t] = [None] * k + spec["prices"][t][k:]
        spec["late_listings"] = True
    return spec


# ---------------------------------------------------------------- build
class Spy:
    """records every call: (date, strategy full name).  Backtest deep-copies the strategy, so the log is
    read back from the copy with `spy_calls`."""

    def __init__(self):
        self.log = []

    def __call__(self, target):
        self.log.append((str(target.now), target.full_name))
        return True


def spy_calls(strategy):
    out = []
    for n in strategy.members:
        st = getattr(n, "stack", None)
        if st is not None:
            for a in st.algos:
                if isinstance(a, Spy):
                    out += a.log
    return out


class QuietOps:
    """a user algo: small capital flows and trades in held securities issued with update=False - the documented way of batching
    engine calls - relying on the update Backtest.run performs after run().  Deterministic in (seed, date, state)."""

    def __init__(self, seed, flows=True):
        self.seed = seed
        self.flows = flows      # capital is injected at the top of a tree only (a flow booked directly on a sub-strategy is a different scenario)

    def __call__(self, target):
        import random as _random
        now = target.now
        try:
            o = now.toordinal()
        except Exception:
            return True
        r = _random.Random(self.seed * 100003 + o)
        # sizes are relative (a fraction of the strategy's value / of the position held), so that a run scales with its capital
        if self.flows and r.random() < 0.5:
            v = float(target._value)
            if v == v and v > 0:
                target.adjust(v * r.choice([0.001, 0.0025, -0.0005]), update=False)
        if r.random() < 0.7:
            held = [c for c in target.children.values() if getattr(c, "_issec", False) and c._position != 0 and c._price == c._price and c._price > 0]
            held.sort(key=lambda c: c.name)       # (not the order in which children happen to have been created)
            if held:
                c = held[r.randrange(len(held))]
                q = c._position * r.choice([0.1, 0.25, -0.1])
                if target.integer_positions:
                    q = float(int(q))
                if q != 0:
                    c.transact(q, update=False)
        return True


class ReadReports:
    """a user algo that only looks: it reads public report getters of its target (and of its children) in the middle of a run - a
    logger, a risk check, a plotting hook.  What a finished backtest reports must not depend on who looked at what, and when."""
    GETTERS = ["positions", "prices", "values", "outlays", "weight", "value", "universe", "notional_value", "capital", "price"]

    def __init__(self, seed):
        self.seed = seed

    def __call__(self, target):
        import random as _random
        try:
            o = target.now.toordinal()
        except Exception:
            return True
        r = _random.Random(self.seed * 7919 + o)
        for g in self.GETTERS:
            if r.random() < 0.6:
                try:
                    getattr(target, g)
                except Exception:   # a getter that raises here raises for everybody; not this algo's business
                    pass
        for c in list(target.children.values()):
            if r.random() < 0.3:
                for g in ("positions", "weight", "values"):
                    try:
                        getattr(c, g)
                    except Exception:
                        pass
        return True


class PermGate:
    """a user algo that keeps its state where the library tells algos to keep it - in `target.perm`: lets the stack through on
    every k-th call"""

    def __init__(self, k):
        self.k = k

    def __call__(self, target):
        n = target.perm.get("verif_calls", 0)
        target.perm["verif_calls"] = n + 1
        return n % self.k == 0


class SetCash:
    def __init__(self, c):
        self.c = c

    def __call__(self, target):
        target.temp["cash"] = self.c
        return True


class SetNotionalConst:
    def __init__(self, v):
        self.v = v

    def __call__(self, target):
        target.temp["notional_value"] = self.v
        return True


def frame(cols, dates, perturb=None, tag=""):
    idx = pd.DatetimeIndex(dates)
    df = pd.DataFrame({k: [np.nan if x is None else float(x) for x in v] for k, v in cols.items()}, index=idx)
    return perturb_frame(df, perturb, tag)


def perturb_frame(df, perturb, tag=""):
    """C04: change every value dated after the cut (NaN / x10 / sign flip / fresh random), deterministically"""
    if not perturb:
        return df
    import random as _random
    cut = pd.Timestamp(perturb["cut"])
    mode = perturb["mode"]
    r = _random.Random("%s-%s" % (perturb.get("seed", 0), tag))
    df = df.copy()
    rows = [i for i in df.index if i > cut]
    for i in rows:
        for c in df.columns:
            v = df.at[i, c]
            if mode == "nan":
                nv = np.nan
            elif mode == "x10":
                nv = v * 10.0
            elif mode == "flip":
                nv = -v
            elif mode == "drop":
                nv = v
            else:
                nv = (abs(v) if v == v else 1.0) * r.uniform(0.2, 3.0)
            df.at[i, c] = nv
    if mode == "drop" and rows and (tag.startswith("wt") or tag.startswith("stat")):
        df = df.loc[[i for i in df.index if i <= cut or r.random() < 0.5]]
    return df


def _nonempty(x):
    return len(x) > 0


def mk_algo(bt, d, tickers, dates, data, perturb=None):
    import random as _random
    a = bt.algos
    n = d[0]
    if n in ("RunDaily", "RunWeekly", "RunMonthly", "RunQuarterly", "RunYearly"):
        return getattr(a, n)(run_on_first_date=d[1], run_on_end_of_period=d[2], run_on_last_date=d[3])
    if n == "RunOnce":
        return a.RunOnce()
    if n == "RunEveryNPeriods":
        return a.RunEveryNPeriods(d[1], d[2])
    if n == "RunAfterDays":
        return a.RunAfterDays(d[1])
    if n == "RunAfterDate":
        return a.RunAfterDate(d[1])
    if n == "RunOnDate":
        return a.RunOnDate(*d[1:])
    if n == "CapitalFlow":
        return a.CapitalFlow(d[1])
    if n == "PermGate":
        return PermGate(d[1])
    if n == "ReadReports":
        return ReadReports(d[1])
    if n == "QuietOps":
        return QuietOps(d[1], d[2] if len(d) > 2 else True)
    if n == "SelectAll":
        return a.SelectAll()
    if n == "SelectThese":
        return a.SelectThese(list(d[1]))
    if n == "SelectHasData":
        return a.SelectHasData(lookback=pd.DateOffset(days=d[1]), min_count=d[2])
    if n == "SelectMomentum":
        return a.SelectMomentum(d[1], lookback=pd.DateOffset(days=d[2]), lag=pd.DateOffset(days=d[3]))
    if n == "SelectRandomly":
        return SeededSelectRandomly(bt, d[1], d[2])
    if n == "WeighEqually":
        return a.WeighEqually()
    if n == "WeighSpecified":
        return a.WeighSpecified(**d[1])
    if n == "WeighInvVol":
        return a.WeighInvVol(lookback=pd.DateOffset(days=d[1]), lag=pd.DateOffset(days=d[2]))
    if n == "WeighERC":
        return a.WeighERC(lookback=pd.DateOffset(days=d[1]), lag=pd.DateOffset(days=d[2]), covar_method="standard", maximum_iterations=500, tolerance=1e-6)
    if n == "WeighRandomly":
        return SeededWeighRandomly(bt, d[1])
    if n == "WeighTarget":
        r = _random.Random(d[1])
        idx = pd.DatetimeIndex(dates)
        rows = {}
        for t in tickers:
            rows[t] = [r.choice([0.0, 0.125, 0.25, 0.25, 0.5]) for _ in idx]
        w = pd.DataFrame(rows, index=idx)
        s = w.abs().sum(axis=1)
        w = w.div(s.where(s > 1, 1.0), axis=0)
        keep = [i for i in range(len(idx)) if r.random() < 0.6 or i == 0]
        return a.WeighTarget(perturb_frame(w.iloc[keep], perturb, "wt%d" % d[1]))
    if n == "SelectWhere":
        # d = [name, seed, opts?]; opts (whole-run-x): {"keep": share of the rows kept (the first always), "nan": share of NaN cells,
        # "nd": include_no_data, "neg": include_negative}
        opts = d[2] if len(d) > 2 and isinstance(d[2], dict) else {}
        r = _random.Random(d[1])
        idx = pd.DatetimeIndex(dates)
        sig = pd.DataFrame({t: [r.random() < 0.6 for _ in idx] for t in tickers}, index=idx)
        if len(d) > 2 and d[2] and not (isinstance(d[2], dict) and d[2].get("stamps") == "midnight"):
            # a signal published at the close: some of its rows are stamped later on the day than the (midnight) price row
            # (not for a SelectWhere that stands alone in a program offered as well-formed: with no row at `now` it selects nothing
            # and the weigher that follows has nothing to read - an ill-formed stack, not a defect of the library)
            idx = pd.DatetimeIndex([ts + pd.Timedelta(hours=16) if r.random() < 0.5 else ts for ts in idx])
            sig.index = idx
        if perturb:
            cut = pd.Timestamp(perturb["cut"])
            for i in idx:
                if i > cut:
                    for t in tickers:
                        sig.at[i, t] = not sig.at[i, t] if perturb["mode"] != "nan" else False
        if opts.get("nan"):
            sig = sig.astype(object)
            for i in range(len(idx)):
                for j in range(len(tickers)):
                    if r.random() < opts["nan"]:
                        sig.iat[i, j] = np.nan
        if opts.get("keep", 1.0) < 1.0:
            sig = sig.iloc[[i for i in range(len(idx)) if i == 0 or r.random() < opts["keep"]]]
        return a.SelectWhere(sig, include_no_data=bool(opts.get("nd", False)), include_negative=bool(opts.get("neg", False)))
    if n == "SetStatSelectN":
        # d = [name, seed, n, lag days, sort_descending, opts?]; opts (whole-run-x): {"distinct": no two equal values in a row (the order
        # pandas gives to ties is not modelled), "nan": share of NaN cells, "aon": all_or_none, "fs": filter_selected}
        opts = d[5] if len(d) > 5 and isinstance(d[5], dict) else {}
        r = _random.Random(d[1])
        idx = pd.DatetimeIndex(dates)
        if opts.get("distinct"):
            vals = [r.sample(range(0, 8 * len(tickers) + 8), len(tickers)) for _ in idx]
            stat = pd.DataFrame({t: [float(v[j]) * 0.25 - 3.0 for v in vals] for j, t in enumerate(tickers)}, index=idx)
        else:
            stat = pd.DataFrame({t: [float(r.randint(0, 20)) for _ in idx] for t in tickers}, index=idx)
        if opts.get("nan"):
            for i in range(len(idx)):
                for j in range(len(tickers)):
                    if r.random() < opts["nan"]:
                        stat.iat[i, j] = np.nan
        # a statistic is often published less often than prices: keep a subset of the rows (the first always)
        if r.random() < 0.6:
            keep = [i for i in range(len(idx)) if i == 0 or r.random() < 0.5]
            stat = stat.iloc[keep]
        stat = perturb_frame(stat, perturb, "stat%d" % d[1])
        return bt.core.AlgoStack(a.SetStat(stat, lag=pd.DateOffset(days=d[3])),
                                 a.SelectN(d[2], sort_descending=d[4], all_or_none=bool(opts.get("aon", False)),
                                           filter_selected=bool(opts.get("fs", False))))
    if n == "CloseDead":
        return a.CloseDead()
    if n == "Require":
        # the predicate used in practice: something is selected
        return a.Require(_nonempty, "selected", bool(d[1]))
    if n == "SelectRegex":
        return a.SelectRegex(d[1])
    if n == "SelectTypes":
        return a.SelectTypes(include_types=tuple(getattr(bt.core, x) for x in d[1]),
                             exclude_types=tuple(getattr(bt.core, x) for x in d[2]))
    if n == "SelectActive":
        return a.SelectActive()
    if n == "LimitWeights":
        return a.LimitWeights(d[1])
    if n == "LimitDeltas":
        return a.LimitDeltas(d[1])
    if n == "ScaleWeights":
        return a.ScaleWeights(d[1])
    if n == "SetCash":
        return SetCash(d[1])
    if n == "SetNotionalConst":
        return SetNotionalConst(d[1])
    if n == "Rebalance":
        return a.Rebalance()
    if n == "RebalanceOverTime":
        r = a.RebalanceOverTime(d[1])
        if len(d) > 2 and d[2]:
            r = a.run_always(r)   # (as users write it: the decorator's return value goes into the stack) called on every run(), also after an earlier algo of the stack answered False
        return r
    raise ValueError(n)


class SeededSelectRandomly:
    """SelectRandomly with the global `random` seeded per call from (seed, date): deterministic and process-independent"""

    def __init__(self, bt, n, seed):
        self.inner = bt.algos.SelectRandomly(n)
        self.seed = seed

    def __call__(self, target):
        import random as _random
        _random.seed("%d-%s" % (self.seed, target.now))
        return self.inner(target)


class SeededWeighRandomly:
    def __init__(self, bt, seed):
        self.inner = bt.algos.WeighRandomly()
        self.seed = seed

    def __call__(self, target):
        import random as _random
        _random.seed("%d-%s" % (self.seed, target.now))
        return self.inner(target)


def build_strategy(bt, spec, spy_log=None):
    dates = spec["dates"]

    def mk(t):
        tickers = (t.get("tickers") or []) + [k["name"] for k in t.get("kids", [])]
        algos = [mk_algo(bt, d, tickers or spec["tickers"], dates, None, spec.get("perturb")) for d in t["stack"]]
        if spy_log is not None:
            algos = [Spy()] + algos
        kids = [mk(k) for k in t.get("kids", [])]
        tick_children = list(t["tickers"] or [])
        mult = spec.get("mult") or {}   # optional {ticker: multiplier}: such tickers are declared as Security objects (C18)
        if spec.get("eager"):
            tick_children = [bt.Security(x, multiplier=mult.get(x, 1)) for x in tick_children]      # constructed up front instead of on first use
        else:
            tick_children = [bt.Security(x, multiplier=mult[x]) if x in mult else x for x in tick_children]
        children = kids + tick_children if (t.get("tickers") is not None) else (kids or None)
        if not children:
            children = None
        cls = bt.FixedIncomeStrategy if spec.get("fi") else bt.Strategy
        node = cls(t["name"], algos=algos, children=children)
        if t.get("preset_integer") is not None:
            # a definition that was configured by its author before it is handed to a Backtest (whose settings then apply)
            node.use_integer_positions(bool(t["preset_integer"]))
        return node

    return mk(spec["tree"])


def build_backtest(bt, spec, spy_log=None, capital=None, strategy=None):
    pt = spec.get("perturb")
    data = frame(spec["prices"], spec["dates"], pt, "prices")
    add = {}
    if spec.get("bidoffer"):
        add["bidoffer"] = frame(spec["bidoffer"], spec["dates"], pt if (pt and pt["mode"] not in ("nan", "flip", "drop")) else None, "bidoffer")
    for k in ("coupons", "cost_long", "cost_short"):
        if spec.get(k):
            add[k] = frame(spec[k], spec["dates"], pt, k)
    s = strategy if strategy is not None else build_strategy(bt, spec, spy_log)
    comm = E.make_comm(*spec["comm"])
    kw = {}
    if spec["comm"][0] != 0:
        kw["commissions"] = comm
    b = bt.Backtest(s, data, initial_capital=spec["capital"] if capital is None else capital,
                    integer_positions=spec["integer"], additional_data=add or None, progress_bar=bool(spec.get("progress_bar", False)), **kw)
    return b, data, add


# ---------------------------------------------------------------- trade log
@contextlib.contextmanager
def trade_log(bt):
    """wraps SecurityBase.transact of the loaded (scratch) module from outside; yields the list of trades.
    Each entry is what the harness itself observes: node, date, q, custom price, state before/after."""
    cls = bt.core.SecurityBase
    orig = cls.transact
    log = []

    def wrapped(self, q, update=True, update_self=True, price=None):
        parent = self.parent

        def booked():
            # outlay booked so far on the parent's date: flushed row + pending accumulator
            try:
                i = self.data.index.get_loc(parent.now)
                return float(self._outlays.values[i]) + self._outlay
            except Exception:
                return self._outlay
        same_date = (self.now == parent.now)
        before = (self._position, parent._capital, parent._last_fee, parent._net_flows, booked() if same_date else self._outlay,
                  self._bidoffer_paid if same_date else 0.0)
        r = orig(self, q, update, update_self, price)
        after = (self._position, parent._capital, parent._last_fee, parent._net_flows, booked(), self._bidoffer_paid)
        log.append({"sec": self.full_name, "parent": parent.full_name, "now": parent.now, "q": float(q),
                    "custom": price, "price": self._price, "mult": self.multiplier, "bidoffer": self._bidoffer,
                    "comm": parent.commission_fn, "before": before, "after": after,
                    "paper": _is_paper(self)})
        return r

    cls.transact = wrapped
    try:
        yield log
    finally:
        cls.transact = orig


def _is_paper(sec):
    n = sec
    seen = 0
    while n.parent is not n and seen < 50:
        n = n.parent
        seen += 1
    # a paper copy's top is its own parent but is not the backtest's strategy; callers filter by identity
    return id(n)


def all_nodes(root):
    return list(root.members)


def strategies(bt, root):
    return [n for n in root.members if isinstance(n, bt.core.StrategyBase)]


def securities(bt, root):
    return [n for n in root.members if isinstance(n, bt.core.SecurityBase)]
