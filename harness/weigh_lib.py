"""helpers shared by the C15 case kinds: serialisation for the `weigh` driver requests, universes, strategies."""
import math

import numpy as np
import pandas as pd

from .engine import b2f, tB, tF, tL, tO  # noqa

NAMES = list("abcdefgh")


def close(a, b, rel=1e-9):
    if a is None or b is None:
        return a is None and b is None
    return abs(a - b) <= rel * max(1.0, abs(a), abs(b))


def fin(x):
    return x is not None and not (isinstance(x, float) and (math.isnan(x) or math.isinf(x)))


def clean(x):
    """float -> float or None (non-finite)"""
    x = float(x)
    return x if math.isfinite(x) else None


# ------------------------------------------------------------------ serialisation
def kid(names, k):
    return str(names.index(k))


def tDict(names, d):
    """d: list of (name, float)"""
    return tL(d, lambda p: kid(names, p[0]) + " " + tF(p[1]))


def tOptDict(names, d):
    return tL(d, lambda p: kid(names, p[0]) + " " + tO(p[1]))


def tSel(names, sel):
    return tL(sel, lambda k: kid(names, k))


def tTable(names, cols, days, rows):
    """rows: list of list of float|None; days: list of int"""
    body = tL(list(zip(days, rows)), lambda r: str(r[0]) + " " + tL(r[1], tO))
    return tSel(names, cols) + " " + body


class Rd:
    """token reader for driver answers"""

    def __init__(self, line):
        self.t = line.split()
        self.i = 0

    def next(self):
        x = self.t[self.i]
        self.i += 1
        return x

    def nat(self):
        return int(self.next())

    def flt(self):
        return b2f(self.next())

    def oflt(self):
        x = self.next()
        return None if x == "N" else b2f(x)

    def dict(self, names, opt=False):
        n = self.nat()
        out = []
        for _ in range(n):
            k = names[self.nat()]
            out.append((k, self.oflt() if opt else self.flt()))
        return out

    def matrix(self):
        return [[self.flt() for _ in range(self.nat())] for _ in range(self.nat())]


def items_of(w):
    """temp['weights'] (dict or Series) -> ordered list of (name, float|None)"""
    if isinstance(w, pd.Series):
        return [(k, clean(v)) for k, v in w.items()]
    return [(k, clean(v)) for k, v in w.items()]


def same_dict(a, b, ordered=True):
    """lists of (name, float|None)"""
    if not ordered:
        a = sorted(a, key=lambda p: p[0])
        b = sorted(b, key=lambda p: p[0])
    if [p[0] for p in a] != [p[0] for p in b]:
        return False
    return all(close(x[1], y[1]) if (x[1] is not None and y[1] is not None) else x[1] is None and y[1] is None for x, y in zip(a, b))


# ------------------------------------------------------------------ universes
def gen_value(rng, grid):
    if grid == "int":
        return float(rng.randint(1, 40))
    if grid == "dyadic":
        return rng.randint(8, 800) / 8.0
    return rng.uniform(5.0, 200.0)


def gen_universe(rng, min_dates=3, max_dates=30, min_cols=1, max_cols=6, nan_ok=True, cal=None):
    """returns dict: start, step kind, days (ints), cols, rows (float|None)"""
    grid = rng.choice(["int", "dyadic", "float", "float"])
    n = rng.randint(min_dates, max_dates)
    cal0 = rng.choice(["daily", "bday", "weekly", "sparse"])
    cal = cal or cal0
    start = pd.Timestamp(rng.choice(["2019-12-20", "2020-02-20", "2021-06-01", "2018-01-01", "2022-12-27"])) + pd.Timedelta(days=rng.randint(0, 40))
    if cal == "daily":
        idx = pd.date_range(start, periods=n, freq="D")
    elif cal == "bday":
        idx = pd.bdate_range(start, periods=n)
    elif cal == "weekly":
        idx = pd.date_range(start, periods=n, freq="7D")
    else:
        gaps = [rng.randint(1, 12) for _ in range(n)]
        idx = pd.DatetimeIndex([start + pd.Timedelta(days=int(sum(gaps[:i + 1]))) for i in range(n)])
    ncols = rng.randint(min_cols, max_cols)
    cols = NAMES[:ncols]
    rng.shuffle(cols)
    colkinds = []
    data = []
    for c in cols:
        kind = rng.choices(["walk", "flat", "geom", "late", "gaps"], [6, 1, 1, 1.5 if nan_ok else 0, 1.5 if nan_ok else 0])[0]
        colkinds.append(kind)
        col = []
        p = gen_value(rng, grid)
        for i in range(n):
            if kind == "flat":
                pass
            elif kind == "geom":
                p = p * 2.0 if i % 2 == 0 else p / 2.0
                if grid == "float" and i == 0:
                    p = float(rng.randint(1, 64))
            elif grid == "int":
                p = max(1.0, p + rng.randint(-3, 3))
            elif grid == "dyadic":
                p = max(0.125, p + rng.randint(-16, 16) / 8.0)
            else:
                p = p * math.exp(rng.gauss(0.0, 0.02))
            col.append(p)
        if kind == "late":
            k = rng.randint(1, max(1, n - 1))
            col = [None] * k + col[k:]
        elif kind == "gaps":
            for _ in range(rng.randint(1, max(1, n // 4))):
                col[rng.randrange(n)] = None
        data.append(col)
    rows = [[data[j][i] for j in range(ncols)] for i in range(n)]
    epoch = pd.Timestamp("2000-01-01")
    return {"grid": grid, "cal": cal, "dates": [str(d.date()) for d in idx], "days": [int((d - epoch).days) for d in idx],
            "cols": cols, "rows": rows, "colkinds": colkinds}


def frame_of(u):
    return pd.DataFrame([[np.nan if v is None else v for v in r] for r in u["rows"]],
                        index=pd.DatetimeIndex(u["dates"]), columns=u["cols"], dtype=float)


class FixtureIllFormed(Exception):
    """the prior portfolio built for a case is itself an ill-formed state (its value passed exactly through zero: the engine rightly
    refuses to compute a return on a zero base) - the case is skipped, the algo under test was never called"""


def make_strategy(bt, u, now_i, holdings=None, capital=1e6, extra=None):
    """a real strategy set up on the universe, updated to dates[now_i]; `holdings` = (date index, [(name, weight)])"""
    data = frame_of(u)
    s = bt.Strategy("s", [])
    s.setup(data, **(extra or {}))
    h_i = holdings[0] if holdings else now_i
    first = min(h_i, now_i)
    s.update(data.index[first])
    s.adjust(capital)
    if holdings:
        for name, w in holdings[1]:
            s.rebalance(w, name, update=True)
    for i in range(first + 1, now_i + 1):
        try:
            s.update(data.index[i])
        except ZeroDivisionError as e:
            raise FixtureIllFormed(str(e)[:120])
    s.temp = {}
    return s, data


def holdable(u, h_i, now_i):
    """names whose price is present on every date from h_i to now_i"""
    out = []
    for j, c in enumerate(u["cols"]):
        if all(u["rows"][i][j] is not None for i in range(h_i, now_i + 1)):
            out.append(c)
    return out


def gen_holdings(rng, u, now_i):
    h_i = rng.randint(0, now_i)
    names = holdable(u, h_i, now_i)
    rng.shuffle(names)
    k = rng.randint(0, len(names))
    held = names[:k]
    if not held:
        return None
    mode = rng.choice(["long", "long", "longshort", "concentrated"])
    ws = []
    for nm in held:
        if mode == "long":
            w = rng.randint(1, 8) / 16.0 / max(1, k) * 2
        elif mode == "longshort":
            w = rng.choice([-1, 1]) * rng.randint(1, 6) / 16.0
        else:
            w = 0.9 / k
        ws.append((nm, float(w)))
    return [h_i, ws]


def gen_weights(rng, keys, kind=None):
    """finite weight dict as list of pairs"""
    kind = kind or rng.choice(["simplex", "simplex-dyadic", "free", "longshort", "zeros"])
    n = len(keys)
    if n == 0:
        return []
    if kind == "simplex":
        x = [rng.random() + 0.01 for _ in keys]
        s = sum(x)
        return [(k, v / s) for k, v in zip(keys, x)]
    if kind == "simplex-dyadic":
        cuts = sorted(rng.randint(0, 64) for _ in range(n - 1))
        parts = [b - a for a, b in zip([0] + cuts, cuts + [64])]
        return [(k, p / 64.0) for k, p in zip(keys, parts)]
    if kind == "longshort":
        x = [rng.randint(-32, 64) / 64.0 for _ in keys]
        x[0] += 1.0 - sum(x)
        return [(k, float(v)) for k, v in zip(keys, x)]
    if kind == "zeros":
        x = [0.0] * n
        for _ in range(rng.randint(1, max(1, n // 2))):
            x[rng.randrange(n)] = 1.0
        s = sum(x)
        return [(k, v / s) for k, v in zip(keys, x)]
    return [(k, rng.randint(-40, 80) / 64.0) for k in keys]


def as_temp(rng_or_flag, pairs):
    """list of pairs -> dict or Series (both occur in real stacks)"""
    if rng_or_flag:
        return pd.Series([p[1] for p in pairs], index=[p[0] for p in pairs], dtype=float)
    return {k: v for k, v in pairs}


def size_class(n):
    return "0" if n == 0 else "1" if n == 1 else "2" if n == 2 else "3+" if n < 6 else "6+"


class Case:
    """one executed case: real outcome, model requests, comparison and monitor results"""

    def __init__(self, kind, case):
        self.kind = kind
        self.case = case
        self.requests = []      # (line, callback(answer) -> None|detail)
        self.violations = []    # (key, msg)
        self.cls = None
        self.tags = []


