"""Run generated whole backtests on the real code and hand the finished objects to a property's checker."""
import traceback

from . import engine as E
from . import gen_runs as R


def run_programs(ctx, bt, n, checker, spec_kwargs=None, spec_mutator=None, corpus=(), spy=False, key_prefix=""):
    """checker(ctx, bt, spec, backtest, trade_log) -> None (records violations itself)."""
    specs = list(corpus) + [None] * n
    for sp in specs:
        if sp is None:
            spec = R.gen_run_spec(ctx.rng, **(spec_kwargs or {}))
            if spec_mutator:
                spec_mutator(ctx.rng, spec)
        else:
            spec = sp
        ctx.evaluations += 1
        ctx.count("programs")
        run_one(ctx, bt, spec, checker, spy)


def run_one(ctx, bt, spec, checker, spy=False):
    try:
        with R.trade_log(bt) as log:
            b, data, add = R.build_backtest(bt, spec, spy_log=[] if spy else None)
            b.run()
    except Exception as e:  # noqa
        ctx.count("program-raised:" + E.classify_exc(e))
        return None
    ctx.count("program-completed")
    ctx.count("trades", len(log))
    shape = (len(spec["tree"]["kids"]), tuple(d[0] for d in spec["tree"]["stack"]), spec["integer"], spec["comm"][0],
             spec["bidoffer"] is not None, spec["grid"], bool(b.strategy.bankrupt))
    ctx.classes.add(shape)
    if len(ctx.samples) < 2:
        ctx.sample({"tree": spec["tree"], "dates": spec["dates"][:3] + ["..."], "integer": spec["integer"], "comm": spec["comm"],
                    "capital": spec["capital"], "n_trades": len(log)})
    checker(ctx, bt, spec, b, log)
    return b
