"""Run generated whole backtests on the real code and hand the finished objects to a property's checker."""
import traceback

from . import engine as E
from . import gen_runs as R


def run_programs(ctx, bt, n, checker, spec_kwargs=None, spec_mutator=None, corpus=(), spy=False, key_prefix=""):
    """checker(ctx, bt, spec, backtest, trade_log) -> None (records violations itself)."""
    specs = list(corpus) + [None] * n
    for sp in specs:
        if sp is None:
            spec = R.gen_run_spec(ctx.rng, **(spec_kwargs or {}))
            if spec_mutator:
                spec_mutator(ctx.rng, spec)
        else:
            spec = sp
        ctx.evaluations += 1
        ctx.count("programs")
        run_one(ctx, bt, spec, checker, spy)


import contextlib
import sys


@contextlib.contextmanager
def flow_log(bt):
    """external capital adjustments: every `adjust` whose caller is not the engine itself (bt/core.py) - issued by algos, by
    Backtest.run, by user code - as (full name of the node, date, amount, flow?)"""
    c = bt.core
    orig = c.StrategyBase.adjust
    core_file = c.__file__
    log = []

    def w(self, amount, update=True, flow=True, fee=0.0):
        try:
            caller = sys._getframe(1).f_code.co_filename
        except Exception:
            caller = ""
        if caller != core_file:
            log.append((self.full_name, self.now, float(amount), bool(flow), self.parent is self))
        return orig(self, amount, update, flow, fee)
    c.StrategyBase.adjust = w
    try:
        yield log
    finally:
        c.StrategyBase.adjust = orig


def run_one(ctx, bt, spec, checker, spy=False):
    try:
        with R.trade_log(bt) as log, flow_log(bt) as flows:
            b, data, add = R.build_backtest(bt, spec, spy_log=[] if spy else None)
            b.run()
            b._verif_flow_log = [f for f in flows if f[0] == b.strategy.full_name and f[4]]
    except Exception as e:  # noqa
        ctx.count("program-raised:" + E.classify_exc(e))
        return None
    ctx.count("program-completed")
    ctx.count("trades", len(log))
    shape = (len(spec["tree"]["kids"]), tuple(d[0] for d in spec["tree"]["stack"]), spec["integer"], spec["comm"][0],
             spec["bidoffer"] is not None, spec["grid"], bool(b.strategy.bankrupt))
    ctx.classes.add(shape)
    if len(ctx.samples) < 2:
        ctx.sample({"tree": spec["tree"], "dates": spec["dates"][:3] + ["..."], "integer": spec["integer"], "comm": spec["comm"],
                    "capital": spec["capital"], "n_trades": len(log)})
    checker(ctx, bt, spec, b, log)
    return b


def run_steps_protocol(ctx, bt, n, footprint_fields=None, corr_name="run-steps", make_spec=None, build=None, trunc=False):
    """whole generated backtests executed on the real code with every outermost engine operation (those issued by the stock
    algos and by Backtest.run itself) recorded as a step and re-executed by the Lean model from the real pre-state"""
    from . import run_steps as RS
    from .engine_run import model_compare
    batch = []
    for _ in range(n):
        spec = make_spec(ctx.rng) if make_spec else R.gen_run_spec(ctx.rng)
        steps = []
        try:
            if build:
                b = build(bt, spec)
            else:
                b, data, add = R.build_backtest(bt, spec)
            with RS.record_steps(bt, b.strategy, steps):
                b.run()
        except Exception as e:  # noqa
            ctx.count("run-steps:program-raised:" + E.classify_exc(e))
        ctx.count("run-steps:programs")
        for j, st in enumerate(steps):
            batch.append(({"run_spec": spec}, j, st))
    nc, nd = model_compare(ctx, bt, batch, footprint_fields, None, corr_name, trunc=trunc)
    ctx.protocols.append((corr_name, nc, nd))


def run_days_protocol(ctx, bt, n, footprint_fields=None, corr_name="btday", make_spec=None, build=None, trunc=False):
    """whole generated backtests on the real code; for the backtest's own root and for every shadow copy of a sub-strategy, each
    day of the loop (`update; if not bankrupt: run; update`; on row 0 a shadow copy, like the backtest's own tree, is only
    updated) is recorded with the worlds before, between and after, and re-executed by the model's `btDay` (root) / `paperDay`
    (shadow copies) (the algos' effect = the recorded world after run(); the model decides whether run() is called at all and
    performs the updates)."""
    from . import run_steps as RS
    from .engine_run import model_compare
    batch = []
    for _ in range(n):
        spec = make_spec(ctx.rng) if make_spec else R.gen_run_spec(ctx.rng)
        try:
            if build:
                b = build(bt, spec)
            else:
                b, data, add = R.build_backtest(bt, spec)
            with RS.record_days(bt) as events:
                try:
                    b.run()
                except Exception as e:  # noqa
                    ctx.count(corr_name + ":program-raised:" + E.classify_exc(e))
        except Exception as e:  # noqa
            ctx.count(corr_name + ":build-raised:" + E.classify_exc(e))
            continue
        ctx.count(corr_name + ":programs")
        for k, obj in events["objects"].items():
            standalone = obj is b.strategy
            steps = RS.day_steps(events[k], standalone)
            ctx.count(corr_name + (":root-days" if standalone else ":paper-days"), len(steps))
            for j, st in enumerate(steps):
                if st["op"]["op"] in ("btday", "paperday"):
                    if st["op"]["op"] == "paperday" and st["op"]["d"] == 0:
                        ctx.count(corr_name + (":paper-row0-RAN" if st["op"]["ran"] else ":paper-row0-update-only"))
                    else:
                        ctx.count(corr_name + (":ran" if st["op"]["ran"] else ":not-run(bankrupt)"))
                batch.append(({"run_spec": spec, "top": "root" if standalone else "paper"}, j, st))
    nc, nd = model_compare(ctx, bt, batch, footprint_fields, None, corr_name, trunc=trunc)
    ctx.protocols.append((corr_name, nc, nd))
    return nc, nd
