"""C11 life-cycle programs (fixed-income style): securities that mature (ClosePositionsAfterDates) and / or roll into another
security (RollPositionsAfterDates) early in the run, SelectActive to keep them out of the selection afterwards, and a consumer of
the selection whose outcome depends on the ORDER of the selected names (SelectRandomly / WeighRandomly with the global seeds
fixed; whole-unit sizing and commissions, where each trade changes what is left for the next one).

Specs are plain JSON ({"kind": "life", ...}); they are built and run by harness/c11_child.py in fresh interpreters that differ
only by PYTHONHASHSEED - the property demands identical results in every process."""
import numpy as np
import pandas as pd

PREFIX = ["bond", "note", "bill", "swap", "tips", "corp", "muni", "frn", "gilt", "bund"]
CONSUMERS = ["select-randomly", "weigh-randomly", "both-random", "equal-whole-units"]
FAR = "2090-01-01"


def gen_life_spec(rng, consumer=None):
    consumer = consumer or rng.choice(CONSUMERS)
    n = rng.randint(5, 8)
    names = []
    while len(names) < n:
        nm = "%s_%d_%s" % (rng.choice(PREFIX), rng.randint(2025, 2060), "".join(rng.choice("abcdefghijklmnopqrstuvwxyz") for _ in range(rng.randint(2, 6))))
        if nm not in names:
            names.append(nm)
    T = rng.randint(12, 20)
    start = pd.Timestamp("2019-01-01") + pd.Timedelta(days=rng.randint(0, 1500))
    dates = [str(d.date()) for d in pd.bdate_range(start, periods=T)]
    prices = {}
    for nm in names:
        x = rng.uniform(20.0, 150.0)
        path = []
        for _ in range(T):
            path.append(x)
            x = max(1.0, x * (1.0 + rng.uniform(-0.03, 0.03)))
        prices[nm] = path
    # who leaves, and when: at least one name early in the run, at least three names stay to the end
    mode = rng.choice(["close", "close", "roll", "both"])
    leaving = rng.sample(names, rng.randint(1, 2) if mode != "both" else 2)
    when = [dates[rng.randint(1, 3)]] + [dates[rng.randint(2, max(2, T // 2))] for _ in leaving[1:]]
    staying = [x for x in names if x not in leaving]
    close, roll = {}, {}
    for j, (nm, d) in enumerate(zip(leaving, when)):
        if mode == "close" or (mode == "both" and j == 0):
            close[nm] = d
        else:
            roll[nm] = [d, rng.choice(staying), rng.choice([0.5, 1.0, 1.25, 2.0])]
    if close and rng.random() < 0.6:
        # the maturity table usually lists every security
        for nm in staying:
            close.setdefault(nm, FAR)
    life = []
    if close:
        life.append(["ClosePositionsAfterDates", "maturity"])
    if roll:
        life.append(["RollPositionsAfterDates", "rolls"])
    rng.shuffle(life)
    sched = rng.choice([["RunDaily"], ["RunDaily"], ["RunEveryNPeriods", rng.randint(2, 3), rng.randint(0, 1)], ["RunWeekly"]])
    tail = [["SelectAll"], ["SelectActive"]]
    if consumer in ("select-randomly", "both-random"):
        tail.append(["SelectRandomly", rng.randint(2, len(staying) - 1)])
    tail.append(["WeighRandomly"] if consumer in ("weigh-randomly", "both-random") else ["WeighEqually"])
    tail.append(["Rebalance"])
    if rng.random() < 0.3:
        # as the docs advise: after the scheduler, marked run_always, so that positions are closed on the day
        stack = [sched] + [d + [True] for d in life] + tail
    else:
        stack = life + [sched] + tail
    whole = consumer == "equal-whole-units" or rng.random() < 0.5
    return {"kind": "life", "consumer": consumer, "names": names, "dates": dates, "prices": prices, "close": close, "roll": roll,
            "stack": stack, "declare": rng.random() < 0.7,
            "integer": whole,
            "comm": rng.choice([[0, 0, 0], [3, 0, 0.001], [1, 2.0, 0], [5, 1.0, 0.001]]) if (consumer == "equal-whole-units" or rng.random() < 0.5) else [0, 0, 0],
            "capital": float(rng.choice([2000, 10000, 100000]) if whole else rng.choice([100000, 1000000])),
            "global_seed": rng.randint(0, 10 ** 6)}


def _algo(bt, d):
    a = bt.algos
    n = d[0]
    if n == "ClosePositionsAfterDates":
        x = a.ClosePositionsAfterDates(d[1])
        return a.run_always(x) if len(d) > 2 and d[2] else x
    if n == "RollPositionsAfterDates":
        x = a.RollPositionsAfterDates(d[1])
        return a.run_always(x) if len(d) > 2 and d[2] else x
    if n == "RunDaily":
        return a.RunDaily()
    if n == "RunWeekly":
        return a.RunWeekly()
    if n == "RunEveryNPeriods":
        return a.RunEveryNPeriods(d[1], d[2])
    if n == "SelectAll":
        return a.SelectAll()
    if n == "SelectActive":
        return a.SelectActive()
    if n == "SelectRandomly":
        return a.SelectRandomly(n=d[1])
    if n == "WeighRandomly":
        return a.WeighRandomly()
    if n == "WeighEqually":
        return a.WeighEqually()
    if n == "Rebalance":
        return a.Rebalance()
    raise ValueError(n)


def build_life_backtest(bt, spec):
    """(backtest, data, additional_data) of a life-cycle spec; the caller fixes the random seeds before build and run"""
    from . import engine as E
    idx = pd.DatetimeIndex(spec["dates"])
    data = pd.DataFrame({k: [float(x) for x in v] for k, v in spec["prices"].items()}, index=idx)[list(spec["names"])]
    add = {}
    if spec["close"]:
        add["maturity"] = pd.DataFrame({"date": [pd.Timestamp(v) for v in spec["close"].values()]}, index=list(spec["close"]))
    if spec["roll"]:
        add["rolls"] = pd.DataFrame({"date": [pd.Timestamp(v[0]) for v in spec["roll"].values()],
                                     "target": [v[1] for v in spec["roll"].values()],
                                     "factor": [float(v[2]) for v in spec["roll"].values()]}, index=list(spec["roll"]))
    s = bt.Strategy("life", [_algo(bt, d) for d in spec["stack"]],
                    children=[bt.Security(x) for x in spec["names"]] if spec["declare"] else None)
    kw = {}
    if spec["comm"][0]:
        kw["commissions"] = E.make_comm(*spec["comm"])
    b = bt.Backtest(s, data, initial_capital=spec["capital"], integer_positions=spec["integer"], additional_data=add, progress_bar=False, **kw)
    return b, data, add


def inactive_names(strategy):
    """names the run has closed or rolled (what SelectActive filters on)"""
    perm = getattr(strategy, "perm", None) or {}
    return sorted(set(perm.get("closed", ())) | set(perm.get("rolled", ())))
