"""helpers of the C20 check: snapshot of the real tree's risk/position state, serialisation for the `risk`
driver requests, parsing and comparison of the model's answers."""
import math

import numpy as np
import pandas as pd

from .engine import b2f, f2b, tB, tF, tL, tO  # noqa

EPOCH = pd.Timestamp("2000-01-01")


def day(ts):
    """date -> day number (the code's sentinel `now == 0` stays 0)"""
    if isinstance(ts, (int, np.integer)):
        return int(ts)
    return int((pd.Timestamp(ts) - EPOCH).days)


def fnum(x):
    """number -> float or None (NaN)"""
    if x is None:
        return None
    x = float(x)
    return None if math.isnan(x) else x


class Namer:
    """names (securities, strategies, measures) <-> naturals"""

    def __init__(self, names=()):
        self.names = list(names)
        self.ix = {n: i for i, n in enumerate(self.names)}

    def __call__(self, n):
        if n not in self.ix:
            self.ix[n] = len(self.names)
            self.names.append(n)
        return self.ix[n]

    def name(self, i):
        return self.names[i]


# ------------------------------------------------------------------ snapshot
def snap_attrs(n):
    risk = None
    if hasattr(n, "risk"):
        risk = [(m, fnum(v)) for m, v in n.risk.items()]
    risks = None
    if hasattr(n, "risks"):
        fr = n.risks
        risks = []
        for m in fr.columns:
            col = fr[m]
            risks.append((m, [(day(k), fnum(v)) for k, v in col.items() if fnum(v) is not None]))
    return {"risk": risk, "risks": risks}


def snap_node(bt, n):
    if isinstance(n, bt.core.SecurityBase):
        return {"sec": n.name, "now": day(n.now), "pos": float(n._position), "mult": float(n.multiplier),
                "price": fnum(n._price), "attrs": snap_attrs(n), "cls": type(n).__name__}
    return {"strat": n.name, "now": day(n.now), "fi": bool(n.fixed_income), "attrs": snap_attrs(n),
            "kids": [snap_node(bt, c) for c in n.children.values()]}


def snap_perm(target):
    out = {}
    for k in ("closed", "rolled"):
        out[k] = sorted(target.perm[k]) if k in target.perm else None
    return out


def leaves(sn):
    if "sec" in sn:
        return [sn]
    out = []
    for k in sn["kids"]:
        out += leaves(k)
    return out


def nodes_with_depth(sn, d=0):
    out = [(sn, d)]
    for k in sn.get("kids", []):
        out += nodes_with_depth(k, d + 1)
    return out


def kid(sn, name):
    for k in sn["kids"]:
        if k.get("sec", k.get("strat")) == name:
            return k
    return None


# ------------------------------------------------------------------ serialisation
def t_optlist(l, f):
    return "N" if l is None else tL(l, f)


def t_attrs(N, a):
    risk = t_optlist(a["risk"], lambda p: "%d %s" % (N(p[0]), tO(p[1])))
    risks = t_optlist(a["risks"], lambda c: "%d %s" % (N(c[0]), tL(c[1], lambda r: "%d %s" % (r[0], tO(r[1])))))
    return risk + " " + risks


def t_node(N, sn):
    if "sec" in sn:
        return "S %d %d %s %s %s %s" % (N(sn["sec"]), sn["now"], tF(sn["pos"]), tF(sn["mult"]), tO(sn["price"]), t_attrs(N, sn["attrs"]))
    return "T %d %d %s %s %s" % (N(sn["strat"]), sn["now"], tB(sn["fi"]), t_attrs(N, sn["attrs"]), tL(sn["kids"], lambda k: t_node(N, k)))


def t_frame(N, df):
    cols = list(df.columns)
    rows = [(day(d), [fnum(v) for v in df.loc[d].values]) for d in df.index]
    return tL(cols, lambda c: str(N(c))) + " " + tL(rows, lambda r: "%d %s" % (r[0], tL(r[1], tO)))


def t_frames(N, frames):
    return tL(list(frames.items()), lambda p: "%d %s" % (N(p[0]), t_frame(N, p[1])))


def t_env(N, tol, lazy, prices):
    return "%s %s %s" % (tF(tol), tL(lazy, lambda p: "%d %s" % (N(p[0]), tF(p[1]))), tL(prices, lambda p: "%d %s" % (N(p[0]), tO(p[1]))))


def t_perm(N, perm):
    return " ".join(t_optlist(perm[k], lambda n: str(N(n))) for k in ("closed", "rolled"))


def env_of(bt, target):
    """tolerance, multipliers of the lazy children, universe row at target.now"""
    lazy = [(k, float(c.multiplier)) for k, c in target._lazy_children.items()]
    prices = []
    u = target._universe
    if target.now != 0 and target.now in u.index:
        row = u.loc[target.now]
        prices = [(c, fnum(row[c])) for c in u.columns]
    return float(bt.core.TOL), lazy, prices


# ------------------------------------------------------------------ parsing answers
class Rd:
    def __init__(self, toks, i=0):
        self.t = toks
        self.i = i

    def next(self):
        x = self.t[self.i]
        self.i += 1
        return x

    def peek(self):
        return self.t[self.i]

    def nat(self):
        return int(self.next())

    def flt(self):
        return b2f(self.next())

    def oflt(self):
        x = self.next()
        return None if x == "N" else b2f(x)

    def lst(self, f):
        return [f() for _ in range(self.nat())]

    def optlst(self, f):
        if self.peek() == "N":
            self.next()
            return None
        return self.lst(f)

    def attrs(self, N):
        risk = self.optlst(lambda: (N.name(self.nat()), self.oflt()))
        risks = self.optlst(lambda: (N.name(self.nat()), self.lst(lambda: (self.nat(), self.oflt()))))
        return {"risk": risk, "risks": risks}

    def node(self, N):
        k = self.next()
        if k == "S":
            name = N.name(self.nat())
            now = self.nat()
            pos = self.flt()
            mult = self.flt()
            price = self.oflt()
            return {"sec": name, "now": now, "pos": pos, "mult": mult, "price": price, "attrs": self.attrs(N)}
        assert k == "T", k
        name = N.name(self.nat())
        now = self.nat()
        fi = self.next() == "1"
        attrs = self.attrs(N)
        kids = self.lst(lambda: self.node(N))
        return {"strat": name, "now": now, "fi": fi, "attrs": attrs, "kids": kids}

    def perm(self, N):
        return {"closed": self.optlst(lambda: N.name(self.nat())), "rolled": self.optlst(lambda: N.name(self.nat()))}


# ------------------------------------------------------------------ comparison
class Cmp:
    def __init__(self):
        self.diffs = []
        self.n = 0        # floats compared
        self.bit = 0      # of which bit-identical

    def num(self, where, a, b, exact=False, scale=1.0):
        """a: real, b: model (float|None)"""
        self.n += 1
        if a is None or b is None:
            if a is None and b is None:
                self.bit += 1
            else:
                self.diffs.append((where, a, b))
            return
        if a == b or f2b(a) == f2b(b):
            self.bit += 1
            return
        if exact or not (abs(a - b) <= 1e-9 * max(1.0, abs(a), abs(b), scale)):
            self.diffs.append((where, a, b))

    def same(self, where, a, b):
        if a != b:
            self.diffs.append((where, a, b))

    def attrs(self, where, a, b):
        ra, rb = a["risk"], b["risk"]
        if (ra is None) != (rb is None):
            self.diffs.append((where + ".risk", ra, rb))
        elif ra is not None:
            self.same(where + ".risk.keys", [p[0] for p in ra], [p[0] for p in rb])
            if len(ra) == len(rb):
                for (m, x), (_, y) in zip(ra, rb):
                    self.num(where + ".risk[%s]" % m, x, y)
        ha, hb = a["risks"], b["risks"]
        if (ha is None) != (hb is None):
            self.diffs.append((where + ".risks", "frame" if ha is not None else None, "frame" if hb is not None else None))
        elif ha is not None:
            self.same(where + ".risks.columns", [c[0] for c in ha], [c[0] for c in hb])
            if len(ha) == len(hb):
                for (m, rows_a), (_, rows_b) in zip(ha, hb):
                    da = {k: v for k, v in rows_a if v is not None}
                    db = {}
                    for k, v in rows_b:     # later writes win in the model's list only through dset: keys are unique
                        db[k] = v
                    db = {k: v for k, v in db.items() if v is not None}
                    for k in sorted(set(da) | set(db)):
                        self.num(where + ".risks[%s,%d]" % (m, k), da.get(k), db.get(k))

    def node(self, where, a, b, pos_exact=True, pos_scale=1.0):
        """a: real snapshot, b: model node"""
        if ("sec" in a) != ("sec" in b):
            self.diffs.append((where + ".kind", a.get("sec", a.get("strat")), b.get("sec", b.get("strat"))))
            return
        if "sec" in a:
            self.same(where + ".name", a["sec"], b["sec"])
            self.num(where + "[%s].position" % a["sec"], a["pos"], b["pos"], exact=pos_exact, scale=pos_scale)
            self.num(where + "[%s].multiplier" % a["sec"], a["mult"], b["mult"], exact=True)
            self.attrs(where + "[%s]" % a["sec"], a["attrs"], b["attrs"])
        else:
            self.same(where + ".name", a["strat"], b["strat"])
            self.attrs(where + "[%s]" % a["strat"], a["attrs"], b["attrs"])
            self.kids(where + "/" + a["strat"], a["kids"], b["kids"], pos_exact, pos_scale)

    def kids(self, where, ka, kb, pos_exact=True, pos_scale=1.0):
        na = [k.get("sec", k.get("strat")) for k in ka]
        nb = [k.get("sec", k.get("strat")) for k in kb]
        self.same(where + ".children", na, nb)
        if na == nb:
            for x, y in zip(ka, kb):
                self.node(where, x, y, pos_exact, pos_scale)

    def perm(self, where, a, b):
        for k in ("closed", "rolled"):
            x = None if a[k] is None else sorted(a[k])
            y = None if b[k] is None else sorted(b[k])
            self.same(where + ".perm[%s]" % k, x, y)


# ------------------------------------------------------------------ tables with their own indices
def gen_extra_dates(rng, dates, force=False):
    """dates (ISO) a unit-risk table may have besides the data dates: a longer history (leading rows), calendar days
    between two data dates that are not data dates (week-ends, mid-week days of a weekly calendar), trailing rows.
    Every data date stays a row of the table (unit_risk is a dict of independent frames: each is looked up by label)."""
    idx = pd.DatetimeIndex(dates)
    have = set(idx)
    out = []
    if force or rng.random() < 0.6:
        for k in range(1, rng.randint(1, 3) + 1):
            out.append(idx[0] - pd.Timedelta(days=k))
    for a, b in zip(idx[:-1], idx[1:]):
        gap = (b - a).days
        if gap > 1 and rng.random() < 0.5:
            for k in sorted(rng.sample(range(1, gap), rng.randint(1, min(2, gap - 1)))):
                out.append(a + pd.Timedelta(days=k))
    if rng.random() < 0.3:
        out.append(idx[-1] + pd.Timedelta(days=rng.randint(1, 3)))
    return sorted({str(d.date()) for d in out if d not in have})


def table_frame(dates, cols, extra_rows=None):
    """DataFrame of one measure: data dates x securities plus the table's own extra rows [[iso date, {sec: value}], ...]"""
    df = pd.DataFrame({c: [np.nan if v is None else v for v in col] for c, col in cols.items()}, index=pd.DatetimeIndex(dates), dtype=float)
    if extra_rows:
        ex = pd.DataFrame({c: [np.nan if r[1].get(c) is None else r[1][c] for r in extra_rows] for c in cols},
                          index=pd.DatetimeIndex([r[0] for r in extra_rows]), dtype=float)
        df = pd.concat([df, ex]).sort_index()
    return df


# ------------------------------------------------------------------ a self-contained risk backtest (also used by the C04 twin runs)
def gen_risk_backtest_spec(rng, T=None):
    """-> JSON-able spec of a FixedIncomeStrategy backtest whose stack is
    [scripted trades, UpdateRisk(m, history) for every measure, SelectThese(hedges), HedgeRisks(measures, pseudo),
     UpdateRisk(m, history) for every measure] over unit-risk tables that change on every date and have their own
    indices (spec['extra_rows'][m]: leading / in-between / trailing rows besides the data dates).
    `rng` is a random.Random; T the number of dates (default 6..10)."""
    T = T or rng.randint(6, 10)
    start = pd.Timestamp(rng.choice(["2021-03-01", "2020-02-24", "2022-12-26"])) + pd.Timedelta(days=rng.randint(0, 20))
    idx = pd.bdate_range(start, periods=T) if rng.random() < 0.5 else pd.date_range(start, periods=T, freq="D")
    dates = [str(d.date()) for d in idx]
    k = rng.choice([1, 2, 2, 3])
    measures = ["m%d" % j for j in range(k)]
    bonds = [{"sec": "b%d" % (i + 1), "cls": rng.choice(["FixedIncomeSecurity", "Security", "CouponPayingSecurity"]),
              "mult": rng.choice([1.0, 1.0, 10.0, 0.5, 100.0])} for i in range(rng.randint(1, 3))]
    bonds[0]["cls"] = "FixedIncomeSecurity"
    hedges = [{"sec": "g%d" % (i + 1), "cls": rng.choice(["HedgeSecurity", "CouponPayingHedgeSecurity"]),
               "mult": rng.choice([1.0, 1.0, 10.0, 0.5]), "lazy": rng.random() < 0.4} for i in range(k)]
    names = [b["sec"] for b in bonds] + [h["sec"] for h in hedges]
    prices = {}
    for nm in names:
        p = rng.uniform(80.0, 120.0)
        col = []
        for _ in range(T):
            p *= math.exp(rng.gauss(0.0, 0.01))
            col.append(p)
        prices[nm] = col
    unit = {}
    for j, m in enumerate(measures):
        cols = {}
        for b in bonds:
            base = rng.uniform(0.5, 5.0)
            cols[b["sec"]] = [base * (1.0 + 0.07 * t + 0.05 * rng.uniform(-1, 1)) for t in range(T)]
        for i, h in enumerate(hedges):      # diagonally dominant at every date: the Jacobian stays well conditioned
            base = (3.0 + i) if i == j else rng.uniform(-0.8, 0.8)
            cols[h["sec"]] = [base * (1.0 + 0.05 * t) + (0.02 * rng.uniform(-1, 1) if i != j else 0.1 * rng.uniform(0, 1)) for t in range(T)]
        unit[m] = cols
    # the measures' tables have their own indices (longer histories, in-between dates); values there are far off
    extra = {}
    for j, m in enumerate(measures):
        if rng.random() < 0.75 or (k > 1 and j == 0):
            ds = gen_extra_dates(rng, dates, force=(j == 0 and k > 1))
            if ds:
                extra[m] = [[d, {nm: rng.uniform(-40.0, 60.0) for nm in unit[m]}] for d in ds]
    integer = rng.random() < 0.5
    trades = {}
    for t, d in enumerate(dates):
        ops = []
        for b in bonds:
            if t == 0 or rng.random() < 0.35:
                q = rng.randint(5, 200) * rng.choice([1, 1, 1, -1])
                ops.append([b["sec"], float(q) if integer else q + rng.random()])
        if ops:
            trades[d] = ops
    return {"dates": dates, "prices": prices, "bonds": bonds, "hedges": hedges, "measures": measures, "unit_risk": unit,
            "trades": trades, "history": rng.choice([1, 2, 2]), "pseudo": rng.random() < 0.3,
            "hedge_on": None if rng.random() < 0.6 else sorted(rng.sample(range(T), max(2, T // 2))),
            "integer": integer, "capital": 1e7, "extra_rows": extra}


def _cut_index(spec, perturb_after):
    if perturb_after is None:
        return None
    if isinstance(perturb_after, (int, np.integer)):
        return int(perturb_after)
    ts = pd.Timestamp(perturb_after)
    return max([i for i, d in enumerate(spec["dates"]) if pd.Timestamp(d) <= ts] or [-1])


def risk_backtest_tables(spec, perturb_after=None, perturb=None):
    """the unit-risk tables {measure: DataFrame(dates x securities)}; every cell dated strictly after the cut
    (`perturb_after`: index into spec['dates'], ISO date or Timestamp) is replaced by perturb(measure, name, i, v)
    (default v -> 3*v + 1)"""
    cut = _cut_index(spec, perturb_after)
    f = perturb or (lambda m, name, i, v: 3.0 * v + 1.0)
    idx = pd.DatetimeIndex(spec["dates"])
    out = {}
    for m, cols in spec["unit_risk"].items():
        data = {}
        for nm, col in cols.items():
            data[nm] = [(f(m, nm, i, v) if (cut is not None and i > cut) else v) for i, v in enumerate(col)]
        extra = []
        for d, row in (spec.get("extra_rows") or {}).get(m, []):      # the table's own rows: perturbed when dated after the cut
            late = cut is not None and pd.Timestamp(d) > idx[cut] if cut is not None and cut >= 0 else cut is not None
            extra.append([d, {nm: (f(m, nm, -1, v) if late else v) for nm, v in row.items()}])
        out[m] = table_frame(spec["dates"], data, extra)
    return out


def build_risk_backtest(bt, spec, perturb_after=None, perturb=None):
    """-> bt.Backtest (not yet run) of the program described by `spec` (gen_risk_backtest_spec).  With
    `perturb_after` the unit-risk tables (and nothing else) differ after that date, see risk_backtest_tables."""
    dates = pd.DatetimeIndex(spec["dates"])
    names = list(spec["prices"])
    data = pd.DataFrame({n: spec["prices"][n] for n in names}, index=dates, dtype=float)
    tables = risk_backtest_tables(spec, perturb_after, perturb)
    plan = spec["trades"]
    hedge_dates = None if spec.get("hedge_on") is None else {dates[i] for i in spec["hedge_on"]}

    class _Trade(bt.Algo):
        def __call__(self, target):
            for nm, q in plan.get(str(pd.Timestamp(target.now).date()), []):
                target.transact(q, nm)
            return True

    class _OnDates(bt.Algo):
        def __call__(self, target):
            return hedge_dates is None or target.now in hedge_dates

    kids = []
    for b in spec["bonds"]:
        kids.append(getattr(bt.core, b["cls"])(b["sec"], multiplier=b["mult"]))
    for h in spec["hedges"]:
        kids.append(getattr(bt.core, h["cls"])(h["sec"], multiplier=h["mult"], lazy_add=bool(h.get("lazy"))))
    ms = list(spec["measures"])
    hist = spec["history"]
    algos = [_Trade()] + [bt.algos.UpdateRisk(m, history=hist) for m in ms]
    algos += [_OnDates(), bt.algos.SelectThese([h["sec"] for h in spec["hedges"]]), bt.algos.HedgeRisks(ms, pseudo=spec["pseudo"])]
    algos += [bt.algos.UpdateRisk(m, history=hist) for m in ms]
    strat = bt.FixedIncomeStrategy("risk_root", algos=algos, children=kids)
    add = {"unit_risk": tables, "coupons": pd.DataFrame(0.0, index=dates, columns=names)}
    return bt.Backtest(strat, data, additional_data=add, integer_positions=spec["integer"], progress_bar=False,
                       initial_capital=spec["capital"])


def risk_backtest_history(backtest, upto=None):
    """comparable history of a run backtest: {'positions': {sec: [..]}, 'risks': {node: {measure: [..]}}, 'price': [..]}
    restricted to dates <= `upto` (Timestamp / ISO date; None = all)"""
    s = backtest.strategy
    cut = None if upto is None else pd.Timestamp(upto)

    def clip(series):
        ser = series if cut is None else series.loc[:cut]
        return [None if (isinstance(v, float) and math.isnan(v)) else float(v) for v in ser.values]
    out = {"positions": {}, "risks": {}, "price": clip(s.prices)}
    for n in s.members:
        if hasattr(n, "multiplier"):     # securities
            out["positions"][n.name] = clip(n.positions)
        if hasattr(n, "risks"):
            fr = n.risks
            fr = fr[[isinstance(i, pd.Timestamp) for i in fr.index]]
            out["risks"][n.name] = {m: clip(fr[m]) for m in fr.columns}
    return out
